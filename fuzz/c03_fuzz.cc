// C03 stage 1 - libFuzzer target.  Same target function as the mutation sweep (harness/common/vf_c03.hpp): the input is
// "file bytes || ops || control", so the oracle (sane SF_INFO, bounded I/O work per call, ASan/bounds on exact-size caller
// buffers, invariant hook) runs inside the target; a failure is turned into a trap so that libFuzzer keeps the input.
// The driver converts an artifact to an "input=<hex>" case and replays it through build/bin/c03 for classification.
#include "vf_c03.hpp"
using namespace vf ;

extern "C" int LLVMFuzzerInitialize (int *, char ***)
{	init_io () ;		// the library's own printf diagnostics (SDS, ALAC) go to /dev/null
	scratch_dir () ;
	signal (SIGPIPE, SIG_IGN) ;
	return 0 ;
}

extern "C" int LLVMFuzzerTestOneInput (const uint8_t *data, size_t size)
{	pinned_time () = 1700000000 ;
	C03Out o = c03_run (data, size, true) ;
	if (!o.ok)
	{	fprintf (stderr, "VERIF-C03 kind=%s detail=%s\n", o.kind.c_str (), o.detail.c_str ()) ;
		__builtin_trap () ;
	}
	return 0 ;
}
