// C15 - I/O failures at any point are contained.  (fault enumeration)
// For representative formats (one per container and per codec family) x workloads {write-close, open-read-seek-read-close,
// rdwr} the fault-free run counts its K virtual-I/O callbacks; then every fault point i = 1..K x fault kind
// {zero-length transfer, short transfer, failed seek, length answer too big / too small / huge} x {single-shot, persistent
// from i on} is executed.  Each (format, workload) group runs in a forked child that announces every cell first, so a hang
// (I/O work budget -> exit 97) or a sanitizer abort is attributed to one cell and the enumeration continues behind it.
#include "vf_file.hpp"
#include <sys/wait.h>
extern "C" int __lsan_do_recoverable_leak_check (void) ;
using namespace vf ;

static Ctx ctx ;

static const int rep_formats [] = {
	SF_FORMAT_WAV | SF_FORMAT_PCM_16, SF_FORMAT_WAV | SF_FORMAT_FLOAT, SF_FORMAT_WAV | SF_FORMAT_IMA_ADPCM, SF_FORMAT_WAV | SF_FORMAT_MS_ADPCM, SF_FORMAT_WAV | SF_FORMAT_GSM610,
	SF_FORMAT_WAV | SF_FORMAT_G721_32, SF_FORMAT_WAV | SF_FORMAT_NMS_ADPCM_24, SF_FORMAT_WAV | SF_FORMAT_ULAW, SF_FORMAT_WAVEX | SF_FORMAT_PCM_24, SF_FORMAT_RF64 | SF_FORMAT_PCM_32,
	SF_FORMAT_W64 | SF_FORMAT_PCM_16, SF_FORMAT_W64 | SF_FORMAT_IMA_ADPCM, SF_FORMAT_AIFF | SF_FORMAT_PCM_24, SF_FORMAT_AIFF | SF_FORMAT_IMA_ADPCM, SF_FORMAT_AIFF | SF_FORMAT_GSM610,
	SF_FORMAT_AIFF | SF_FORMAT_DWVW_16, SF_FORMAT_AIFF | SF_FORMAT_DOUBLE, SF_FORMAT_AU | SF_FORMAT_PCM_16, SF_FORMAT_AU | SF_FORMAT_G723_24, SF_FORMAT_AU | SF_FORMAT_ALAW,
	SF_FORMAT_CAF | SF_FORMAT_PCM_16, SF_FORMAT_CAF | SF_FORMAT_ALAC_16, SF_FORMAT_CAF | SF_FORMAT_ALAC_24, SF_FORMAT_PAF | SF_FORMAT_PCM_24, SF_FORMAT_PAF | SF_FORMAT_PCM_16,
	SF_FORMAT_SVX | SF_FORMAT_PCM_S8, SF_FORMAT_NIST | SF_FORMAT_PCM_16, SF_FORMAT_VOC | SF_FORMAT_PCM_16, SF_FORMAT_IRCAM | SF_FORMAT_FLOAT, SF_FORMAT_MAT4 | SF_FORMAT_DOUBLE,
	SF_FORMAT_MAT5 | SF_FORMAT_PCM_32, SF_FORMAT_PVF | SF_FORMAT_PCM_16, SF_FORMAT_XI | SF_FORMAT_DPCM_16, SF_FORMAT_HTK | SF_FORMAT_PCM_16, SF_FORMAT_SDS | SF_FORMAT_PCM_16,
	SF_FORMAT_AVR | SF_FORMAT_PCM_16, SF_FORMAT_MPC2K | SF_FORMAT_PCM_16, SF_FORMAT_WVE | SF_FORMAT_ALAW, SF_FORMAT_RAW | SF_FORMAT_VOX_ADPCM, SF_FORMAT_RAW | SF_FORMAT_GSM610,
	SF_FORMAT_RAW | SF_FORMAT_DWVW_12, SF_FORMAT_RAW | SF_FORMAT_PCM_24 } ;
static const int NREP = sizeof (rep_formats) / sizeof (rep_formats [0]) ;
enum { W_WRITE = 0, W_READ, W_RDWR, W_COUNT } ;
static const char *wl_name [] = { "write", "read", "rdwr" } ;

struct Cell { long fault_at ; int kind ; bool persistent ; } ;
struct Group { int format ; int ch ; int wl ; int wt ; } ;	// wt: sample type of the typed transfers (0 short, 1 int, 2 float, 3 double)

static std::set<int> open_fds ()
{	std::set<int> s ; DIR *d = opendir ("/proc/self/fd") ; if (!d) return s ; int self = dirfd (d) ;
	while (auto *e = readdir (d)) { if (e->d_name [0] == '.') continue ; int fd = atoi (e->d_name) ; if (fd != self) s.insert (fd) ; }
	closedir (d) ; return s ;
}

static int channels_for (int format) { return fmt_check (format, 2) ? 2 : 1 ; }

// the valid input of the read-side workloads
static std::vector<uint8_t> valid_file (const Group &g, long long frames)
{	MemFile m ; OpenSpec s ; s.format = g.format ; s.ch = g.ch ; s.rate = 8000 ;
	SNDFILE *f = open_write_mem (m, s) ; if (!f) return {} ;
	sf_set_string (f, SF_STR_TITLE, "a title") ; sf_set_string (f, SF_STR_COMMENT, "a comment") ;	// LIST / NAME / info chunks for the parsers to walk
	// ... and instrument with loops, cue points, broadcast info where the container takes them (smpl / INST / MARK / cue / bext / chan chunks)
	{	SF_INSTRUMENT in ; memset (&in, 0, sizeof (in)) ; in.gain = 1 ; in.basenote = 60 ; in.velocity_hi = 127 ; in.key_hi = 127 ; in.loop_count = 2 ;
		in.loops [0].mode = SF_LOOP_FORWARD ; in.loops [0].start = 10 ; in.loops [0].end = 100 ; in.loops [0].count = 3 ; in.loops [1].mode = SF_LOOP_BACKWARD ; in.loops [1].start = 120 ; in.loops [1].end = 200 ; in.loops [1].count = 1 ;
		sf_command (f, SFC_SET_INSTRUMENT, &in, sizeof (in)) ;
		static SF_CUES cu ; memset (&cu, 0, sizeof (cu)) ; cu.cue_count = 3 ; for (uint32_t i = 0 ; i < 3 ; i++) { cu.cue_points [i].indx = (int) i + 1 ; cu.cue_points [i].sample_offset = 20 * i ; cu.cue_points [i].fcc_chunk = 0x61746164 ; snprintf (cu.cue_points [i].name, sizeof (cu.cue_points [i].name), "cue %u", i) ; }
		sf_command (f, SFC_SET_CUE, &cu, sizeof (cu)) ;
		static SF_BROADCAST_INFO b ; memset (&b, 0, sizeof (b)) ; strcpy (b.description, "a description") ; strcpy (b.originator, "someone") ; strcpy (b.coding_history, "A=PCM,F=8000\r\n") ; b.coding_history_size = (uint32_t) strlen (b.coding_history) ;
		sf_command (f, SFC_SET_BROADCAST_INFO, &b, sizeof (b)) ;
		if (g.ch == 2) { int map [2] = { SF_CHANNEL_MAP_LEFT, SF_CHANNEL_MAP_RIGHT } ; sf_command (f, SFC_SET_CHANNEL_MAP_INFO, map, sizeof (map)) ; }
	}
	std::vector<short> a ((size_t) frames * g.ch) ; Rng r (11) ; for (auto &x : a) x = (short) r.next () ;
	sf_writef_short (f, a.data (), frames) ; sf_close (f) ;
	return m.data ;
}

// Runs the workload on `mf` (which may carry a fault plan).  Returns "" or "kind|detail".  `header_size` (out, fault-free run):
// size of the store right after the open returned.
static std::string run_workload (const Group &g, MemFile &mf, long long frames, size_t *header_size, std::vector<uint8_t> *snapshot_at_fault)
{	OpenSpec s ; s.format = g.format ; s.ch = g.ch ; s.rate = 8000 ; int ch = g.ch ;
	int B = nominal_block (g.format, ch, 8000) ; long long blk = B > 1 ? B : 500 ; if (blk & 1) blk ++ ;
	SF_INFO info ; memset (&info, 0, sizeof (info)) ;
	bool raw = (g.format & SF_FORMAT_TYPEMASK) == SF_FORMAT_RAW ;
	int mode = g.wl == W_WRITE ? SFM_WRITE : g.wl == W_READ ? SFM_READ : SFM_RDWR ;
	if (mode == SFM_WRITE || raw) { info.format = g.format ; info.channels = ch ; info.samplerate = 8000 ; }
	bool fired_before = mf.fault_fired ;
	SNDFILE *f = open_mem (mf, mode, &info) ;
	if (header_size) *header_size = mf.data.size () ;
	if (!f)
	{	if (sf_error (nullptr) == 0) return "failed_open_without_error|" ;
		return "" ;
	}
	std::string bad ;
	auto snap = [&] () { if (snapshot_at_fault && snapshot_at_fault->empty () && mf.fault_fired && !fired_before) *snapshot_at_fault = mf.data ; } ;
	bool no_audio = g.wl == W_WRITE && g.wt == 4 ;	// fifth variant of the write workload: metadata only, closed without any audio (sf_close then writes the header itself)
	int wt = g.wt > 3 ? 0 : g.wt, wts = stype_size (wt) ;
	const Codec *wcd = codec_of (g.format) ; bool wgran = mode == SFM_WRITE && is_granular (g.format) && wcd && wcd->granular && wcd->bytes > 0 ; long long wbw = wgran ? (long long) wcd->bytes * ch : 1 ;
	auto do_write = [&] (long long fr)
	{	std::vector<uint8_t> b ((size_t) fr * ch * wts) ;
		for (size_t i = 0 ; i < (size_t) fr * ch ; i++)
		{	short v = (short) (i * 131 + fr) ;
			switch (wt) { case T_SHORT : ((short *) b.data ()) [i] = v ; break ; case T_INT : ((int *) b.data ()) [i] = (int) ((unsigned) v << 16) ; break ; case T_FLOAT : ((float *) b.data ()) [i] = v / 32768.0f ; break ; default : ((double *) b.data ()) [i] = v / 32768.0 ; }
		}
		sf_count_t r0, w0, r1, w1 ; sf_verif_get_positions (f, &r0, &w0) ; long long acc0 = mf.bytes_written ;
		sf_count_t w = sf_writef_t (f, wt, b.data (), fr) ;
		sf_verif_get_positions (f, &r1, &w1) ; snap () ;
		if (w < 0 || w > fr) bad = "write_count_out_of_range|returned " + std::to_string ((long long) w) + " of " + std::to_string (fr) ;
		else if (w1 - w0 != w) bad = "write_position_ne_count|returned " + std::to_string ((long long) w) + " position moved " + std::to_string ((long long) (w1 - w0)) ;
		// sample-granular encodings store every frame as bw bytes at once: the call cannot have written more frames than the I/O layer took bytes for
		else if (wgran && w * wbw > mf.bytes_written - acc0) bad = "write_count_exceeds_accepted_bytes|returned " + std::to_string ((long long) w) + " frames of " + std::to_string (wbw) + " bytes, the I/O layer accepted " + std::to_string (mf.bytes_written - acc0) + " bytes during the call" ;
	} ;
	auto do_read = [&] (long long fr)
	{	std::vector<uint8_t> b ((size_t) fr * ch * wts, 0x5a) ;
		sf_count_t r0, w0, r1, w1 ; sf_verif_get_positions (f, &r0, &w0) ;
		sf_count_t r = sf_readf_t (f, wt, b.data (), fr) ;
		sf_verif_get_positions (f, &r1, &w1) ; snap () ;
		if (r < 0 || r > fr) bad = "read_count_out_of_range|returned " + std::to_string ((long long) r) + " of " + std::to_string (fr) ;
		else if (r1 - r0 != r && !(r0 + r > r1 && r1 >= 0 && r1 == info.frames)) bad = "read_position_ne_count|returned " + std::to_string ((long long) r) + " position moved " + std::to_string ((long long) (r1 - r0)) ;
	} ;
	// geometry as the handle reports it (a fault during the open may have changed what the parser saw)
	int fmt_now = mode == SFM_WRITE ? g.format : ((g.format & SF_FORMAT_TYPEMASK) | (info.format & SF_FORMAT_SUBMASK)) ; int ch_now = mode == SFM_WRITE ? ch : info.channels ;
	const Codec *cdc = codec_of (fmt_now) ; bool gran = is_granular (g.format) && cdc && cdc->granular && cdc->bytes > 0 && ch_now >= 1 && ch_now <= 1024 ; long long bw = gran ? (long long) cdc->bytes * ch_now : 1 ;
	// raw transfers (sample-granular encodings): the position moves by returned bytes / bytes per frame
	auto do_write_raw = [&] (long long fr)
	{	std::vector<uint8_t> b ((size_t) (fr * bw)) ; for (size_t i = 0 ; i < b.size () ; i++) b [i] = (uint8_t) (i * 7 + 1) ;
		sf_count_t r0, w0, r1, w1 ; sf_verif_get_positions (f, &r0, &w0) ;
		sf_count_t w = sf_write_raw (f, b.data (), fr * bw) ;
		sf_verif_get_positions (f, &r1, &w1) ; snap () ;
		if (w < 0 || w > fr * bw) bad = "write_count_out_of_range|sf_write_raw returned " + std::to_string ((long long) w) + " of " + std::to_string (fr * bw) ;
		else if (w1 - w0 != w / bw) bad = "write_position_ne_count|sf_write_raw returned " + std::to_string ((long long) w) + " bytes (" + std::to_string ((long long) (w / bw)) + " frames), position moved " + std::to_string ((long long) (w1 - w0)) ;
	} ;
	auto do_read_raw = [&] (long long fr)
	{	std::vector<uint8_t> b ((size_t) (fr * bw), 0x5a) ;
		sf_count_t r0, w0, r1, w1 ; sf_verif_get_positions (f, &r0, &w0) ;
		sf_count_t r = sf_read_raw (f, b.data (), fr * bw) ;
		sf_verif_get_positions (f, &r1, &w1) ; snap () ;
		if (r < 0 || r > fr * bw) bad = "read_count_out_of_range|sf_read_raw returned " + std::to_string ((long long) r) + " of " + std::to_string (fr * bw) ;
		else if (r1 - r0 != r / bw && !(r0 + r / bw > r1 && r1 >= 0 && r1 == info.frames)) bad = "read_position_ne_count|sf_read_raw returned " + std::to_string ((long long) r) + " bytes, position moved " + std::to_string ((long long) (r1 - r0)) ;
	} ;
	auto do_seek = [&] (sf_count_t off, int whence)
	{	SF_INFO ci ; memset (&ci, 0, sizeof (ci)) ; sf_command (f, SFC_GET_CURRENT_SF_INFO, &ci, sizeof (ci)) ;
		sf_count_t tgt = (whence & 3) == SEEK_END ? ci.frames + off : off ;
		sf_count_t got = sf_seek (f, off, whence) ; snap () ;
		if (got != -1 && got != tgt) bad = "seek_result|target " + std::to_string ((long long) tgt) + " returned " + std::to_string ((long long) got) ;
	} ;
	if (no_audio) { sf_set_string (f, SF_STR_TITLE, "set before any audio") ; sf_set_string (f, SF_STR_COMMENT, "so that sf_close has a header to write") ; snap () ; }
	else if (g.wl == W_WRITE) { for (int k = 0 ; k < 3 && bad.empty () ; k++) do_write (k == 1 ? blk + 2 : blk) ; if (bad.empty ()) { sf_command (f, SFC_UPDATE_HEADER_NOW, nullptr, 0) ; snap () ; do_write (2) ; } if (bad.empty () && gran) do_write_raw (50) ; if (bad.empty () && gran) do_write_raw (3) ; }
	else if (g.wl == W_READ) { do_read (blk + blk / 2) ; if (bad.empty ()) do_seek (blk + 2, SEEK_SET) ; if (bad.empty () && gran) do_read_raw (5) ; if (bad.empty ()) do_read (3 * blk) ; if (bad.empty ()) { char log [256] ; sf_command (f, SFC_GET_LOG_INFO, log, sizeof (log)) ; double mx ; sf_command (f, SFC_CALC_SIGNAL_MAX, &mx, sizeof (mx)) ; snap () ; } }
	else { do_read (10) ; if (bad.empty ()) do_seek (0, SEEK_END | SFM_WRITE) ; if (bad.empty ()) do_write (20) ; if (bad.empty ()) do_seek (0, SEEK_SET | SFM_READ) ; if (bad.empty ()) do_read (6) ; if (bad.empty ()) do_write (4) ; }
	int inv = sf_verif_check_invariants (f) ; if (inv && bad.empty ()) bad = "invariant|mask " + std::to_string (inv) ;
	sf_close (f) ;	// must return and release everything; under a failing I/O layer its return value is not constrained
	(void) frames ;
	return bad ;
}

static std::vector<Cell> cells_for (long K, bool quick, long long salt)
{	std::vector<Cell> v ;
	for (long i = 1 ; i <= K ; i++)
		for (int kind = 1 ; kind < FK_COUNT ; kind++)
			for (int p = 0 ; p < 2 ; p++)
			{	// quick tier: all single-shot points of every 2nd index and every 3rd persistent point (offset by the group so that the union over groups covers all residues)
				if (quick && !((p == 0 && ((i + salt) % 2 == 0)) || (p == 1 && ((i + salt + kind) % 3 == 0)))) continue ;
				v.push_back ({ i, kind, p != 0 }) ;
			}
	return v ;
}

static Case cell_case (const Group &g, const Cell &c, long K)
{	Case k ; k.set ("fmt", format_str (g.format)) ; k.seti ("format", g.format) ; k.seti ("ch", g.ch) ; k.set ("workload", wl_name [g.wl]) ; k.seti ("wl", g.wl) ; k.seti ("wt", g.wt) ;
	k.seti ("fault_at", c.fault_at) ; k.set ("fault", fault_kind_name [c.kind]) ; k.seti ("kind_id", c.kind) ; k.seti ("persistent", c.persistent) ; k.seti ("callbacks_fault_free", K) ;
	k.set ("container", major_name (g.format)) ; k.set ("codec", codec_of (g.format)->name) ;
	return k ;
}

static std::string run_cell (const Group &g, const Cell &c, const std::vector<uint8_t> &valid, const std::vector<uint8_t> &fault_free_final, size_t header_size, bool leak_check, bool &consumed)
{	MemFile mf ; if (g.wl != W_WRITE) mf.data = valid ;
	mf.fault_at = c.fault_at ; mf.fault_kind = c.kind ; mf.fault_persistent = c.persistent ;
	mf.reset_budget (300000) ; mf.budget_fatal = true ;
	std::set<int> fds0 = open_fds () ; std::vector<uint8_t> snapshot ;
	std::string r = run_workload (g, mf, 0, nullptr, &snapshot) ;
	consumed = mf.fault_consumed > 0 ;
	if (!r.empty ()) return r ;
	if (open_fds () != fds0) return "descriptor_leak|" ;
	// data the I/O layer had accepted before the fault must not be damaged by later calls (audio region only: headers are legitimately rewritten)
	if (g.wl == W_WRITE && !snapshot.empty () && header_size > 0 && snapshot.size () > header_size && mf.data.size () >= snapshot.size () && fault_free_final.size () >= snapshot.size ())
	{	// compare against the fault-free file: same inputs, so accepted audio bytes must be the fault-free bytes
		bool same_as_snapshot = memcmp (mf.data.data () + header_size, snapshot.data () + header_size, snapshot.size () - header_size) == 0 ;
		bool same_as_ff = memcmp (mf.data.data () + header_size, fault_free_final.data () + header_size, snapshot.size () - header_size) == 0 ;
		if (!same_as_snapshot && !same_as_ff)
		{	size_t i = header_size ; while (i < snapshot.size () && (mf.data [i] == snapshot [i] || mf.data [i] == fault_free_final [i])) i ++ ;
			return "accepted_data_corrupted|bytes accepted before the fault (offset " + std::to_string (header_size) + ".." + std::to_string (snapshot.size ()) + ") differ afterwards from both the snapshot and the fault-free file, first at " + std::to_string (i) + " (final size " + std::to_string (mf.data.size ()) + ", fault-free size " + std::to_string (fault_free_final.size ()) + ")" ;
		}
	}
	// read/write workload: it only appends, so the audio that was in the file when it was opened must still be there, whatever fails
	// (audio region = the last frames x channels x bytes of the original file, up to a possible terminator / pad byte; header fields
	// may legitimately be rewritten from what the failing I/O layer answered)
	// (not under a lying length answer: a layer that reports the file 17 bytes shorter makes "append at the end" land inside the old audio by its own account)
	if (g.wl == W_RDWR && !valid.empty () && mf.data.size () >= valid.size () && (c.kind == FK_ZERO || c.kind == FK_SHORT || c.kind == FK_SEEKFAIL))
	{	const Codec *cq = codec_of (g.format) ; size_t alen = cq && cq->bytes > 0 ? (size_t) (4 * 500) * (size_t) g.ch * (size_t) cq->bytes : 0 ;
		if (alen > 0 && alen + 2 < valid.size ()) for (size_t i = valid.size () - alen ; i + 2 < valid.size () ; i++) if (mf.data [i] != valid [i])
			return std::string ("existing_data_corrupted|(fault hit a '") + mf.fault_cb + "' callback) byte " + std::to_string (i) + " of the audio that was in the file when it was opened read/write changed (" + std::to_string (valid [i]) + " -> " + std::to_string (mf.data [i]) + ")" ;
	}
	if (leak_check && __lsan_do_recoverable_leak_check ()) return "memory_leak|" ;
	return "" ;
}

// child: runs cells [from, ..) and reports through the pipe; line protocol "S i", "R i consumed kind|detail", "L leak"
static long run_group_child (const Group &g, const std::vector<Cell> &cells, long from, const std::vector<uint8_t> &valid, const std::vector<uint8_t> &ff, size_t hsz, bool leak_each,
			std::vector<std::pair<long, std::string>> &fails, long &done, long &consumed_n, bool &group_leak, int &exit_code, long &last_finished)
{	int pfd [2] ; if (pipe (pfd) != 0) return -2 ;
	fflush (nullptr) ;
	pid_t pid = fork () ;
	if (pid == 0)
	{	close (pfd [0]) ; char line [700] ;
		for (long i = from ; i < (long) cells.size () ; i++)
		{	int len = snprintf (line, sizeof (line), "S %ld\n", i) ; if (write (pfd [1], line, len) < 0) _exit (3) ;
			bool cons = false ; std::string r = run_cell (g, cells [i], valid, ff, hsz, leak_each, cons) ;
			len = snprintf (line, sizeof (line), "R %ld %d %s\n", i, cons ? 1 : 0, r.substr (0, 600).c_str ()) ; if (write (pfd [1], line, len) < 0) _exit (3) ;
			if (leak_each && r.compare (0, 11, "memory_leak") == 0) _exit (96) ;	// LSan keeps reporting the same leak: stop this child, the parent continues behind the cell
		}
		int leak = leak_each ? 0 : __lsan_do_recoverable_leak_check () ;
		int len = snprintf (line, sizeof (line), "L %d\n", leak ? 1 : 0) ; if (write (pfd [1], line, len) < 0) _exit (3) ;
		_exit (0) ;
	}
	close (pfd [1]) ; FILE *in = fdopen (pfd [0], "r") ; char line [800] ; long started = -1, finished = -1 ;
	while (fgets (line, sizeof (line), in))
	{	if (line [0] == 'S') started = atol (line + 2) ;
		else if (line [0] == 'R') { long idx ; int cons ; int pos = 0 ; sscanf (line + 2, "%ld %d %n", &idx, &cons, &pos) ; finished = idx ; done ++ ; consumed_n += cons ;
			std::string rest = line + 2 + pos ; while (!rest.empty () && rest.back () == '\n') rest.pop_back () ; if (!rest.empty ()) fails.push_back ({ idx, rest }) ; }
		else if (line [0] == 'L') group_leak = line [2] == '1' ;
	}
	fclose (in) ; int st = 0 ; waitpid (pid, &st, 0) ;
	exit_code = WIFEXITED (st) ? WEXITSTATUS (st) : 128 + WTERMSIG (st) ;
	last_finished = finished ;
	if (exit_code == 0 || exit_code == 96) return -1 ;
	return started ;
}

static Result replay_cell (const Case &c)
{	Group g { (int) c.geti ("format"), (int) c.geti ("ch"), (int) c.geti ("wl"), (int) c.geti ("wt", 0) } ; Cell cell { (long) c.geti ("fault_at"), (int) c.geti ("kind_id"), c.geti ("persistent") != 0 } ;
	long long frames = 4 * (nominal_block (g.format, g.ch, 8000) > 1 ? nominal_block (g.format, g.ch, 8000) : 500) ;
	std::vector<uint8_t> valid = g.wl == W_WRITE ? std::vector<uint8_t> () : valid_file (g, frames) ;
	MemFile ffm ; if (g.wl != W_WRITE) ffm.data = valid ; size_t hsz = 0 ; run_workload (g, ffm, frames, &hsz, nullptr) ;
	bool cons = false ; std::string r = run_cell (g, cell, valid, ffm.data, hsz, true, cons) ;
	Result res ; res.nontrivial = cons ;
	if (!r.empty ()) { auto p = r.find ('|') ; res.ok = false ; res.kind = r.substr (0, p) ; res.detail = p == std::string::npos ? "" : r.substr (p + 1) ; }
	return res ;
}

int main (int argc, char **argv)
{	init_io () ;
	ctx.property = "C15" ;
	ctx.parse (argc, argv) ;
	scratch_dir () ;
	if (!ctx.replay.empty ()) { int rc = replay_main (ctx, replay_cell) ; rm_scratch () ; return rc ; }
	long long worker = ctx.opti ("worker", 0), workers = ctx.opti ("workers", 1) ;
	std::vector<Group> groups ;
	for (int i = 0 ; i < NREP ; i++)
	{	int fmt = rep_formats [i] ; int ch = channels_for (fmt) ; if (!fmt_check (fmt, ch)) continue ;
		for (int wl = 0 ; wl < W_COUNT ; wl++)
		{	if (wl == W_RDWR && !is_granular (fmt)) continue ;
			for (int wt = 0 ; wt < (wl == W_WRITE ? 5 : 4) ; wt++) groups.push_back ({ fmt, ch, wl, wt }) ;
		}
	}
	bool failed = false ; long gi = 0 ;
	for (auto &g : groups)
	{	if (gi ++ % workers != worker) continue ;
		if (ctx.over_budget ()) { ctx.ev.skipped_budget ++ ; continue ; }
		long long frames = 4 * (nominal_block (g.format, g.ch, 8000) > 1 ? nominal_block (g.format, g.ch, 8000) : 500) ;
		std::vector<uint8_t> valid = g.wl == W_WRITE ? std::vector<uint8_t> () : valid_file (g, frames) ;
		if (g.wl != W_WRITE && valid.empty ()) continue ;
		// fault-free run: K callbacks
		MemFile ffm ; if (g.wl != W_WRITE) ffm.data = valid ; size_t hsz = 0 ;
		std::string e = run_workload (g, ffm, frames, &hsz, nullptr) ;
		if (g.wl == W_RDWR && ffm.total_cb () < 3) continue ;	// RDWR not supported by this format
		if (!e.empty ()) { Case c = cell_case (g, { 0, 0, false }, 0) ; Result r ; r.ok = false ; auto p = e.find ('|') ; r.kind = "fault_free_" + e.substr (0, p) ; r.detail = e.substr (p + 1) ; RunFn give = [&] (const Case &) { return r ; } ; if (execute (ctx, c, give, nullptr, false)) { failed = true ; break ; } continue ; }
		long K = ffm.total_cb () ;
		std::vector<Cell> cells = cells_for (K, false, gi) ;	// the complete enumeration costs seconds: both tiers run it
		ctx.ev.extra ["fault_points_total"] += K * (FK_COUNT - 1) * 2 ; ctx.ev.extra ["fault_points_enumerated"] += (long long) cells.size () ;
		long from = 0 ; bool leak_each = false ;
		while (from < (long) cells.size () && !failed)
		{	std::vector<std::pair<long, std::string>> fails ; long done = 0, cons = 0 ; bool gleak = false ; int ec = 0 ; long lastfin = -1 ;
			long crashed = run_group_child (g, cells, from, valid, ffm.data, hsz, leak_each, fails, done, cons, gleak, ec, lastfin) ;
			ctx.ev.evaluations += done ; ctx.ev.extra ["distinct_counted"] += cons ; ctx.ev.extra ["faults_consumed"] += cons ;
			ctx.ev.classes [std::string ("workload:") + wl_name [g.wl]] += done ; ctx.ev.classes [std::string ("container:") + major_name (g.format)] += done ;
			for (auto &fl : fails)
			{	Case c = cell_case (g, cells [fl.first], K) ; auto p = fl.second.find ('|') ; Result r ; r.ok = false ; r.kind = fl.second.substr (0, p) ; r.detail = p == std::string::npos ? "" : fl.second.substr (p + 1) ;
				RunFn give = [&] (const Case &) { return r ; } ; if (execute (ctx, c, give, nullptr, false)) failed = true ;
			}
			if (crashed >= 0)
			{	Case c = cell_case (g, cells [crashed], K) ; Result r ; r.ok = false ; r.kind = ec == 97 ? "unbounded_work" : "crash" ;
				r.detail = ec == 97 ? "the library call did not return within 300000 I/O callbacks" : "child died (exit " + std::to_string (ec) + "): sanitizer report or signal, see stderr" ;
				RunFn give = [&] (const Case &) { return r ; } ; ctx.ev.evaluations ++ ; if (execute (ctx, c, give, nullptr, false)) failed = true ;
				from = crashed + 1 ;
			}
			else if (ec == 96) { from = lastfin + 1 ; }	// child stopped after reporting a leak cell: continue behind it
			else if (gleak && !leak_each) { leak_each = true ; from = 0 ; ctx.ev.extra ["groups_rerun_for_leak_attribution"] ++ ; }	// a leak somewhere in the group: re-run with a check after every cell
			else break ;
		}
		if (ctx.ev.samples.size () < 8 && !cells.empty ()) ctx.ev.samples.push_back (cell_case (g, cells [cells.size () / 2], K).str (' ')) ;
		ctx.flush () ;
		if (failed) break ;
	}
	ctx.flush (true) ; rm_scratch () ;
	if (failed) { fprintf (outf (), "FAIL %s kind=%s detail=%s\n", ctx.path ("failing.case").c_str (), ctx.failing_res.kind.c_str (), ctx.failing_res.detail.c_str ()) ; return 1 ; }
	fprintf (outf (), "OK evaluations=%lld\n", ctx.ev.evaluations) ;
	return 0 ;
}
