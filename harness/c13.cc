// C13 - custom chunks: any number set, all retrievable, audio untouched.
// case: container {WAV, WAVEX, RF64, AIFF, CAF} x 0..200 chunks (biased to the table growth steps) x ids (1-4 printable chars,
//       duplicates) x payload lengths {0..5, odd, 4k+-1, up to 48 KiB} x interleaved string/bext sets x audio x iterator script.
// oracle: model = ordered list of accepted chunks; after re-open full and by-id iteration visit exactly the stored chunks in
//         order with size = padded length and data = payload + zero pad; sf_get_chunk_data never writes past datalen;
//         audio and other metadata equal a twin file written without the chunks; late sets are refused or harmless.
#include "vf_file.hpp"
using namespace vf ;

static Ctx ctx ;
static const int containers [] = { SF_FORMAT_WAV, SF_FORMAT_WAVEX, SF_FORMAT_RF64, SF_FORMAT_AIFF, SF_FORMAT_CAF } ;

static Case gen_case ()
{	Case c ;
	int maj = *rc::gen::elementOf (std::vector<int> (containers, containers + 5)) ;
	int sub = *rc::gen::element (SF_FORMAT_PCM_16, SF_FORMAT_PCM_24, SF_FORMAT_FLOAT) ;
	int chn = *rc::gen::element (1, 2, 3) ;
	// byte order: the container's own in half of the cases, otherwise an explicit one where sf_format_check accepts it (RIFX, AIFF-C 'sowt', little-endian CAF)
	int en = *rc::gen::element (0, 0, (int) SF_ENDIAN_LITTLE, (int) SF_ENDIAN_BIG) ;
	if (en) { SF_INFO ci ; memset (&ci, 0, sizeof (ci)) ; ci.format = maj | sub | en ; ci.channels = chn ; ci.samplerate = 44100 ; if (!sf_format_check (&ci)) en = 0 ; }
	c.set ("fmt", format_str (maj | sub | en)) ; c.seti ("format", maj | sub | en) ;
	c.seti ("ch", chn) ;
	c.seti ("count", *rc::gen::weightedOneOf<int> ({ { 3, rangeOf<int> (0, 8) }, { 3, rc::gen::element (19, 20, 21, 22, 30, 31, 32, 33, 46, 47, 48, 49) }, { 2, rangeOf<int> (9, 80) }, { 1, rangeOf<int> (81, 200) } })) ;
	c.seti ("seed", (long long) *seedGen ()) ;
	c.seti ("idmode", *rangeOf<int> (0, 4)) ;	// 0 distinct 4-char ids, 1 few ids with duplicates, 2 short ids (1-3 chars), 3 mixed, 4 ids the reader knows (APPL, DISP, ...)
	c.seti ("lenmode", *rangeOf<int> (0, 3)) ;	// 0 tiny 0..5, 1 odd / 4k+-1, 2 mixed up to 2 KiB, 3 a few large (up to 48 KiB)
	c.seti ("meta", *rangeOf<int> (0, 1)) ;	// interleave string / bext sets
	c.seti ("frames", *rc::gen::element (0, 1, 100, 1000)) ;
	c.seti ("late", *rangeOf<int> (0, 1)) ;		// one more sf_set_chunk after audio
	c.seti ("reserved", *rangeOf<int> (0, 9) == 0) ;	// use a reserved id once (separate class)
	c.seti ("readfirst", *rangeOf<int> (0, 1)) ;	// read some audio before fetching chunk data
	return c ;
}

static Case sig_of (const Case &c)
{	int format = (int) c.geti ("format") ; Case s ;
	s.set ("container", major_name (format)) ; const Codec *cd = codec_of (format) ; s.set ("codec", cd ? cd->name : "?") ;
	return s ;
}

struct Chunk { std::string id ; std::vector<uint8_t> data ; } ;

static std::vector<short> audio_of (long long frames, int ch, uint64_t seed)
{	std::vector<short> a ((size_t) frames * ch) ; Rng r (seed ^ 0xaaaa) ; for (auto &x : a) x = (short) r.next () ; return a ; }

static Result run_case (const Case &c)
{	Result r ; r.sig = sig_of (c) ;
	OpenSpec s ; s.format = (int) c.geti ("format") ; s.ch = (int) c.geti ("ch") ; s.rate = 44100 ; int ch = s.ch ;
	int count = (int) c.geti ("count") ; uint64_t seed = (uint64_t) c.geti ("seed") ; int idmode = (int) c.geti ("idmode"), lenmode = (int) c.geti ("lenmode") ;
	long long frames = c.geti ("frames") ; bool meta = c.geti ("meta") != 0, late = c.geti ("late") != 0, reserved = c.geti ("reserved") != 0 ;
	auto fail = [&] (const char *kind, const std::string &d) { Result x = r ; x.ok = false ; x.kind = kind ; x.detail = d ; return x ; } ;
	Rng rng (seed) ;
	// chunk list
	std::vector<Chunk> want ; size_t total = 0 ;
	static const char *few [] = { "aaaa", "bbbb", "Ab1_", "zz  " } ;
	for (int i = 0 ; i < count ; i++)
	{	Chunk k ;
		int im = idmode == 3 ? (int) rng.below (3) : idmode ;
		if (im == 0) { char b [8] ; snprintf (b, sizeof (b), "%c%03d", "qxyv" [rng.below (4)], i % 1000) ; k.id = b ; }
		else if (im == 1) k.id = few [rng.below (4)] ;
		else if (im == 4)
		{	// ids the container's own reader has a branch for but which carry no metadata the other checks look at (application / display chunks): accepted
			// by sf_set_chunk like any other id, so they have to come back like any other
			int mj = s.format & SF_FORMAT_TYPEMASK ; k.id = mj == SF_FORMAT_AIFF ? "APPL" : mj == SF_FORMAT_CAF ? (rng.below (2) ? "uuid" : "umid") : (rng.below (2) ? "DISP" : "MEXT") ;
		}
		else { int n = 1 + (int) rng.below (3) ; for (int j = 0 ; j < n ; j++) k.id += (char) ('k' + rng.below (10)) ; }
		size_t len ; int lm = lenmode ;
		if (lm == 0) len = rng.below (6) ; else if (lm == 1) { static const size_t L [] = { 1, 3, 5, 7, 9, 4095, 4097, 255, 257, 1023 } ; len = L [rng.below (10)] ; }
		else if (lm == 2) len = rng.below (2048) ; else len = rng.below (12) == 0 ? 20000 + rng.below (28000) : rng.below (300) ;
		if (im == 4 && rng.below (3) == 0) len = 8180 + rng.below (24) ;	// around the size above which readers skip such a chunk instead of parsing it
		if (total + len + 16 > 90000) len = 0 ;	// hard cap; totals beyond ~48 KiB form the separate "large" class (listed finding)
		total += len + 16 ;
		k.data.resize (len) ; for (auto &b : k.data) b = (uint8_t) (1 + rng.below (255)) ;
		want.push_back (k) ;
	}
	if (reserved) { Chunk k ; int maj = s.format & SF_FORMAT_TYPEMASK ; k.id = maj == SF_FORMAT_AIFF ? "SSND" : maj == SF_FORMAT_CAF ? "data" : (rng.below (2) ? "data" : "fmt ") ; k.data.assign (6, 0x42) ; want.insert (want.begin () + (want.empty () ? 0 : (long) rng.below (want.size ())), k) ; }
	std::vector<short> audio = audio_of (frames, ch, seed) ;
	r.dhash = fnv_str (c.str ()) ;
	bool dup = false ; { std::set<std::string> ids ; for (auto &k : want) if (!ids.insert (k.id).second) dup = true ; }
	bool odd = false ; for (auto &k : want) if (k.data.size () & 1) odd = true ;
	r.nontrivial = (int) want.size () >= 21 || dup || odd ;
	r.classes = { std::string ("container:") + major_name (s.format), std::string ("count:") + (want.size () == 0 ? "0" : want.size () < 20 ? "1-19" : want.size () < 32 ? "20-31" : want.size () < 48 ? "32-47" : ">=48"),
		std::string ("dup_ids:") + (dup ? "1" : "0"), std::string ("reserved:") + (reserved ? "1" : "0"), "lenmode:" + std::to_string (lenmode) } ;

	// twin without custom chunks, and the real file
	auto write_file_with = [&] (MemFile &m, bool with_chunks, std::vector<int> &accepted, std::string &err) -> bool
	{	SNDFILE *f = open_write_mem (m, s) ; if (!f) { err = std::string ("open_write_failed: ") + sf_strerror (nullptr) ; return false ; }
		if (meta) sf_set_string (f, SF_STR_TITLE, "the title") ;
		size_t i = 0 ;
		for (auto &k : want)
		{	if (!with_chunks) break ;
			SF_CHUNK_INFO ci ; memset (&ci, 0, sizeof (ci)) ; snprintf (ci.id, sizeof (ci.id), "%s", k.id.c_str ()) ; ci.id_size = (unsigned) k.id.size () ;
			Block payload (k.data.size ()) ; if (!k.data.empty ()) memcpy (payload.p, k.data.data (), k.data.size ()) ;	// exact-size source: an over-read is an ASan report
			ci.data = payload.p ; ci.datalen = (unsigned) k.data.size () ;
			int rc = sf_set_chunk (f, &ci) ;
			accepted.push_back (rc == 0) ;
			int inv = sf_verif_check_invariants (f) ; if (inv) { sf_close (f) ; err = "invariant: mask " + std::to_string (inv) + " after chunk " + std::to_string (i) ; return false ; }
			if (meta && i == want.size () / 2) { sf_set_string (f, SF_STR_ARTIST, "an artist") ; SF_BROADCAST_INFO b ; memset (&b, 0, sizeof (b)) ; strcpy (b.description, "d") ; sf_command (f, SFC_SET_BROADCAST_INFO, &b, sizeof (b)) ; }
			i ++ ;
		}
		if (meta && (!with_chunks || want.empty ())) { sf_set_string (f, SF_STR_ARTIST, "an artist") ; SF_BROADCAST_INFO b ; memset (&b, 0, sizeof (b)) ; strcpy (b.description, "d") ; sf_command (f, SFC_SET_BROADCAST_INFO, &b, sizeof (b)) ; }
		// the audio goes in through sf_writef_short or - every other seed, for sample-granular encodings - through sf_write_raw alone (twin and real alike)
		bool raw_audio = (c.geti ("seed") & 2) && is_granular (s.format) && codec_of (s.format)->bytes > 0 ;
		if (frames && raw_audio) { sf_count_t bw = (sf_count_t) codec_of (s.format)->bytes * s.ch ; sf_count_t bytes = frames * bw ; std::vector<uint8_t> rawbuf ((size_t) bytes) ; const uint8_t *ab = (const uint8_t *) audio.data () ; size_t an = audio.size () * 2 ; for (size_t q = 0 ; q < rawbuf.size () ; q++) rawbuf [q] = ab [q % an] ; if (sf_write_raw (f, rawbuf.data (), bytes) != bytes) { sf_close (f) ; err = "short_write_raw" ; return false ; } }
		else if (frames && sf_writef_short (f, audio.data (), frames) != frames) { sf_close (f) ; err = "short_write" ; return false ; }
		if (late && with_chunks && frames)
		{	SF_CHUNK_INFO ci ; memset (&ci, 0, sizeof (ci)) ; strcpy (ci.id, "LATE") ; ci.id_size = 4 ; char pl [6] = "late!" ; ci.data = pl ; ci.datalen = 6 ;
			int rc = sf_set_chunk (f, &ci) ; (void) rc ;	// refused or ignored - either is fine; the audio check below decides
		}
		if (sf_close (f) != 0) { err = "close_failed" ; return false ; }
		return true ;
	} ;
	MemFile twin, real ; std::vector<int> acc0, acc ; std::string err ;
	if (!write_file_with (twin, false, acc0, err)) return fail ("twin_failed", err) ;
	if (!write_file_with (real, true, acc, err)) return fail (err.compare (0, 9, "invariant") == 0 ? "invariant" : "write_failed", err) ;
	if (reserved) r.sig.set ("reserved", "1") ;
	{	size_t hdr = 0 ; bool shortid = false ; for (size_t i = 0 ; i < want.size () ; i++) if (acc [i]) { hdr += want [i].data.size () + 16 ; if (want [i].id.size () < 4) shortid = true ; }
		r.sig.set ("large", hdr > 48000 ? "1" : "0") ; r.sig.set ("short_ids", shortid ? "1" : "0") ;
		r.classes.push_back (std::string ("large:") + (hdr > 48000 ? "1" : "0")) ; r.classes.push_back (std::string ("short_ids:") + (shortid ? "1" : "0")) ;
	}
	// library-generated chunk ids (from the twin)
	std::multiset<std::string> lib_ids ;
	{	MemFile t ; t.data = twin.data ; SF_INFO ti ; SNDFILE *g = open_read_mem (t, s, &ti) ; if (!g) return fail ("twin_reopen_failed", sf_strerror (nullptr)) ;
		for (SF_CHUNK_ITERATOR *it = sf_get_chunk_iterator (g, nullptr) ; it ; it = sf_next_chunk_iterator (it))
		{	SF_CHUNK_INFO ci ; memset (&ci, 0, sizeof (ci)) ; char buf [8] ; ci.data = buf ; ci.datalen = 0 ; if (sf_get_chunk_size (it, &ci) != 0) break ;
			if (ci.datalen > 200000) ci.datalen = 16 ;
			std::vector<uint8_t> tmp (ci.datalen ? ci.datalen : 1) ; ci.data = tmp.data () ; if (sf_get_chunk_data (it, &ci) != 0) break ;
			lib_ids.insert (std::string (ci.id, strnlen (ci.id, 4))) ;
		}
		sf_close (g) ;
	}
	// expected list
	std::vector<Chunk> model ; for (size_t i = 0 ; i < want.size () ; i++) if (acc [i]) model.push_back (want [i]) ;
	bool collide = false ; for (auto &k : model) if (lib_ids.count (k.id)) collide = true ;
	MemFile rd ; rd.data = real.data ; SF_INFO ri ; SNDFILE *g = open_read_mem (rd, s, &ri) ;
	if (!g) return fail ("reopen_failed", sf_strerror (nullptr)) ;
	if (ri.frames != frames || ri.channels != ch) { sf_close (g) ; return fail ("info_changed", "frames " + std::to_string ((long long) ri.frames) + " channels " + std::to_string (ri.channels)) ; }
	std::vector<short> got ((size_t) frames * ch + 1) ;
	sf_count_t first_part = c.geti ("readfirst") ? frames / 3 : 0 ;
	if (first_part && sf_readf_short (g, got.data (), first_part) != first_part) { sf_close (g) ; return fail ("audio_short_read", "first part") ; }
	// ---- full iteration (a reserved id that was accepted aliases a library chunk: only "file intact" is asserted then)
	if (reserved) collide = true ;
	if (!collide)
	{	size_t mi = 0 ; int guard = 0 ;
		for (SF_CHUNK_ITERATOR *it = sf_get_chunk_iterator (g, nullptr) ; it ; it = sf_next_chunk_iterator (it))
		{	if (++ guard > 5000) { sf_close (g) ; return fail ("iteration_does_not_end", "") ; }
			SF_CHUNK_INFO ci ; memset (&ci, 0, sizeof (ci)) ;
			if (sf_get_chunk_size (it, &ci) != 0) { sf_close (g) ; return fail ("get_chunk_size_failed", "") ; }
			unsigned size = ci.datalen ;
			if (size > 200000) continue ;	// cannot be one of ours (<= 48 KiB); RF64 reports its 'data' placeholder size 0xFFFFFFFF here
			Block buf (size) ; memset (buf.p, 0xEE, buf.n) ; ci.data = buf.p ; ci.datalen = size ;
			if (sf_get_chunk_data (it, &ci) != 0) { sf_close (g) ; return fail ("get_chunk_data_failed", "") ; }
			std::string id (ci.id, strnlen (ci.id, 4)) ;
			auto li = lib_ids.find (id) ;
			bool is_model = mi < model.size () && id == model [mi].id ;
			if (!is_model) { if (li != lib_ids.end ()) continue ; sf_close (g) ; return fail ("unexpected_chunk", "'" + id + "' at model index " + std::to_string (mi)) ; }
			const Chunk &k = model [mi] ;
			if (size < k.data.size () || size > k.data.size () + 3) { sf_close (g) ; return fail ("chunk_size", "'" + id + "' stored " + std::to_string (size) + " set " + std::to_string (k.data.size ())) ; }
			if (!k.data.empty () && memcmp (buf.p, k.data.data (), k.data.size ()) != 0) { sf_close (g) ; return fail ("chunk_payload", "'" + id + "' index " + std::to_string (mi)) ; }
			for (size_t j = k.data.size () ; j < size ; j++) if (buf.p [j] != 0) { sf_close (g) ; return fail ("chunk_pad_not_zero", "'" + id + "'") ; }
			// short buffer: at most datalen bytes may be written (exact-size block, ASan)
			if (size > 1)
			{	unsigned sl = size / 2 ; Block sb (sl) ; SF_CHUNK_INFO c2 ; memset (&c2, 0, sizeof (c2)) ; c2.data = sb.p ; c2.datalen = sl ;
				if (sf_get_chunk_data (it, &c2) == 0 && sl && memcmp (sb.p, k.data.data (), std::min<size_t> (sl, k.data.size ())) != 0) { sf_close (g) ; return fail ("chunk_payload_short_buffer", "'" + id + "'") ; }
			}
			mi ++ ;
		}
		if (mi != model.size ()) { sf_close (g) ; return fail ("chunks_missing", "iteration delivered " + std::to_string (mi) + " of " + std::to_string (model.size ()) + " stored chunks") ; }
	}
	// ---- by-id iteration
	std::set<std::string> ids ; for (auto &k : model) ids.insert (k.id) ;
	for (auto &id : ids)
	{	if (lib_ids.count (id) || reserved) continue ;
		SF_CHUNK_INFO filt ; memset (&filt, 0, sizeof (filt)) ; snprintf (filt.id, sizeof (filt.id), "%s", id.c_str ()) ; filt.id_size = (unsigned) id.size () ;
		std::vector<const Chunk *> exp ; for (auto &k : model) if (k.id == id) exp.push_back (&k) ;
		size_t n = 0 ; int guard = 0 ;
		for (SF_CHUNK_ITERATOR *it = sf_get_chunk_iterator (g, &filt) ; it ; it = sf_next_chunk_iterator (it))
		{	if (++ guard > 5000) { sf_close (g) ; return fail ("iteration_does_not_end", id) ; }
			SF_CHUNK_INFO ci ; memset (&ci, 0, sizeof (ci)) ; if (sf_get_chunk_size (it, &ci) != 0) { sf_close (g) ; return fail ("get_chunk_size_failed", id) ; }
			if (n >= exp.size ()) { sf_close (g) ; return fail ("by_id_extra_chunk", id) ; }
			unsigned size = ci.datalen ; Block buf (size) ; ci.data = buf.p ; ci.datalen = size ;
			if (sf_get_chunk_data (it, &ci) != 0) { sf_close (g) ; return fail ("get_chunk_data_failed", id) ; }
			if (size < exp [n]->data.size () || (exp [n]->data.size () && memcmp (buf.p, exp [n]->data.data (), exp [n]->data.size ()) != 0)) { sf_close (g) ; return fail ("by_id_payload", "'" + id + "' occurrence " + std::to_string (n)) ; }
			n ++ ;
		}
		if (n != exp.size ()) { sf_close (g) ; return fail ("by_id_count", "'" + id + "' found " + std::to_string (n) + " of " + std::to_string (exp.size ())) ; }
	}
	// a by-id iteration that is abandoned half way must not restrict the next full iteration: count the chunks with a fresh full
	// iterator, start (and drop) a by-id iterator, count again
	{	auto count_all = [&] () { long n = 0 ; for (SF_CHUNK_ITERATOR *it = sf_get_chunk_iterator (g, nullptr) ; it && n < 100000 ; it = sf_next_chunk_iterator (it)) n ++ ; return n ; } ;
		long before = count_all () ;
		for (auto &id : ids)
		{	if (lib_ids.count (id) || reserved) continue ;
			SF_CHUNK_INFO filt ; memset (&filt, 0, sizeof (filt)) ; snprintf (filt.id, sizeof (filt.id), "%s", id.c_str ()) ; filt.id_size = (unsigned) id.size () ;
			if (sf_get_chunk_iterator (g, &filt) == nullptr) continue ;
			long after = count_all () ;
			if (after != before) { sf_close (g) ; return fail ("full_iteration_after_abandoned_by_id", "full iteration visits " + std::to_string (before) + " chunks, after an abandoned iteration by id '" + id + "' it visits " + std::to_string (after)) ; }
			break ;
		}
	}
	// an id that was never set finds nothing
	{	SF_CHUNK_INFO filt ; memset (&filt, 0, sizeof (filt)) ; strcpy (filt.id, "NoNe") ; filt.id_size = 4 ; if (!lib_ids.count ("NoNe") && sf_get_chunk_iterator (g, &filt) != nullptr) { sf_close (g) ; return fail ("iterator_for_absent_id", "") ; } }
	// ---- audio untouched (continues where the first part stopped), equal to the twin
	sf_count_t rest = sf_readf_short (g, got.data () + (size_t) first_part * ch, frames - first_part) ;
	if (rest != frames - first_part) { sf_close (g) ; return fail ("audio_short_read", std::to_string ((long long) rest)) ; }
	sf_close (g) ;
	// reference: what was handed to sf_writef_short, or - when the audio went in through sf_write_raw - what the twin file (same bytes, no chunks) decodes to
	std::vector<short> refaudio = audio ;
	if ((c.geti ("seed") & 2) && is_granular (s.format) && codec_of (s.format)->bytes > 0 && frames)
	{	MemFile tw ; tw.data = twin.data ; SF_INFO ti ; SNDFILE *tf = open_read_mem (tw, s, &ti) ; if (!tf) return fail ("twin_reopen_failed", sf_strerror (nullptr)) ;
		refaudio.assign ((size_t) frames * ch, 0) ; sf_count_t tg = sf_readf_short (tf, refaudio.data (), frames) ; sf_close (tf) ; if (tg != frames) return fail ("twin_short_read", std::to_string ((long long) tg)) ;
	}
	if (frames && memcmp (got.data (), refaudio.data (), (size_t) frames * ch * 2) != 0)
	{	size_t i = 0 ; while (got [i] == refaudio [i]) i ++ ; return fail ("audio_changed", "first difference at item " + std::to_string (i) + (first_part ? " (a first part of " + std::to_string ((long long) first_part) + " frames was read before the chunk queries)" : "")) ; }
	// AIFF keeps the software string in an APPL chunk: a caller who adds APPL chunks of his own has, by that, said something about that string
	bool appl_is_software = false ; if ((s.format & SF_FORMAT_TYPEMASK) == SF_FORMAT_AIFF) for (auto &k : want) if (k.id == "APPL") appl_is_software = true ;
	if (meta)
	{	MemFile a ; a.data = real.data ; MemFile b ; b.data = twin.data ; SF_INFO i1, i2 ; SNDFILE *f1 = open_read_mem (a, s, &i1), *f2 = open_read_mem (b, s, &i2) ;
		bool same = true ; if (f1 && f2) for (int st = SF_STR_FIRST ; st <= SF_STR_LAST ; st++) { if (appl_is_software && st == SF_STR_SOFTWARE) continue ; const char *x = sf_get_string (f1, st), *y = sf_get_string (f2, st) ; if ((x == nullptr) != (y == nullptr) || (x && strcmp (x, y))) same = false ; }
		if (f1) sf_close (f1) ; if (f2) sf_close (f2) ;
		if (!same) return fail ("other_metadata_changed", "strings differ from the twin file") ;
	}
	return r ;
}

int main (int argc, char **argv)
{	init_io () ;
	ctx.property = "C13" ;
	ctx.parse (argc, argv) ;
	scratch_dir () ;
	int rc = rc_main (ctx, gen_case, run_case, sig_of) ;
	rm_scratch () ;
	return rc ;
}
