// C14 - path, descriptor, virtual-I/O and embedded access give identical results.
// kind=read : one byte string (a valid file of a random catalogue entry with strings, or a truncated / corrupted version) opened
//             through every route {virtual I/O, path, descriptor close_desc 0/1, descriptor at offset k inside a file with leading
//             and trailing junk (WAV/AIFF/AU), non-seekable pipe (WAV/AIFF/AU, sample-granular)}; observations must agree.
// kind=write: the same samples written through {virtual I/O, path, descriptor, descriptor into an existing container file};
//             produced bytes must agree (apart from the file-name fields of SVX / MPC2K).
// plus: sf_close closes a descriptor handed to sf_open_fd iff close_desc, and no other descriptor changes state.
#include "vf_c03.hpp"
#include <dirent.h>
#include <fcntl.h>
#include <signal.h>
#include <sys/time.h>
#include <sys/wait.h>
using namespace vf ;

static Ctx ctx ;

static std::set<int> open_fds ()
{	std::set<int> s ; DIR *d = opendir ("/proc/self/fd") ; if (!d) return s ; int self = dirfd (d) ;
	while (auto *e = readdir (d)) { if (e->d_name [0] == '.') continue ; int fd = atoi (e->d_name) ; if (fd != self) s.insert (fd) ; }
	closedir (d) ; return s ;
}

static Case gen_case ()
{	Case c ;
	c.set ("kind", *rc::gen::element<std::string> ("read", "read", "write")) ;
	const FmtEntry *e = pickEntry (all_vio_entries ()) ;
	c.set ("fmt", format_str (e->format)) ; c.seti ("format", e->format) ;
	c.seti ("ch", pickChannels (e, 20)) ;
	c.seti ("n", *rc::gen::element<long long> (0, 1, 5, 6, 100, 777, 3000)) ;
	c.seti ("seed", (long long) *seedGen ()) ;
	c.seti ("mut", *rc::gen::element (0, 0, 0, 1, 2, 3)) ;	// 0 valid, 1 truncated, 2 byte flipped, 3 header garbage
	c.seti ("cut", *rangeOf<int> (0, 1000)) ;
	c.seti ("bigchunk", *rc::gen::element (0, 0, 0, 17000, 40001, 70000)) ;	// an unknown chunk of that size spliced in before the audio (WAV / AIFF families, valid inputs)
	c.seti ("annot", *rc::gen::element (0, 0, 4, 9, 100, 70000)) ;	// AU annotation bytes between header and audio
	c.seti ("id3", *rc::gen::element (0, 0, 0, 0, 10, 137)) ;	// an ID3v2 tag of that payload size in front of the file
	c.seti ("lead", *rc::gen::element (1, 3, 4, 7, 64, 1001)) ; c.seti ("trail", *rc::gen::element (0, 1, 2, 13, 500, 600, 600)) ;	// 600: a trailer in the container's own chunk syntax (a title chunk) - it is not part of the embedded file
	return c ;
}

static Case sig_of (const Case &c)
{	int format = (int) c.geti ("format") ; Case s ;
	s.set ("container", major_name (format)) ; const Codec *cd = codec_of (format) ; s.set ("codec", cd ? cd->name : "?") ;
	return s ;
}

struct Obs
{	bool opened = false ; int err = 0 ; SF_INFO info ; std::vector<int> samples ; sf_count_t got = 0 ; std::string strings ; int close_rc = 0 ; std::string fdnote ;
	std::string describe () const
	{	if (!opened) return "NULL err=" + std::to_string (err) + " (" + sf_error_number (err) + ")" ;
		return "frames=" + std::to_string ((long long) info.frames) + " rate=" + std::to_string (info.samplerate) + " ch=" + std::to_string (info.channels) + " fmt=" + std::to_string (info.format) + " sections=" + std::to_string (info.sections) + " seekable=" + std::to_string (info.seekable) +
			" got=" + std::to_string ((long long) got) + " datahash=" + std::to_string (fnv1a (samples.data (), samples.size () * 4)) + " strings=" + std::to_string (fnv_str (strings)) + " close=" + std::to_string (close_rc) ;
	}
} ;

static bool g_raw_reads = false ;	// set per case: the routes are compared through sf_read_raw instead of sf_readf_int
static void observe (SNDFILE *f, const SF_INFO &info, Obs &o, bool vox)
{	o.opened = f != nullptr ; o.info = info ;
	if (!f) { o.err = sf_error (nullptr) ; return ; }
	int ch = info.channels > 0 && info.channels <= 1024 ? info.channels : 1 ; long long want = 2000 ; if (vox) want &= ~1ll ;
	const Codec *ocd = codec_of (info.format) ;
	if (g_raw_reads && ocd && ocd->granular && ocd->bytes > 0)
	{	// the audio through sf_read_raw, in pieces, until the handle says there is no more (at most 40 calls): every route must deliver the same bytes and stop at the same place
		long long bw = (long long) ocd->bytes * ch ; std::vector<uint8_t> piece ((size_t) (bw * 37)) ; o.got = 0 ; o.samples.clear () ;
		for (int call = 0 ; call < 40 ; call++)
		{	sf_count_t g = sf_read_raw (f, piece.data (), (sf_count_t) piece.size ()) ; if (g <= 0) break ;
			for (sf_count_t i = 0 ; i < g ; i++) o.samples.push_back (piece [(size_t) i]) ;
			o.got += g ;
		}
	}
	else
	{	o.samples.assign ((size_t) want * ch, 0) ; o.got = sf_readf_int (f, o.samples.data (), want) ; if (o.got < 0) o.got = 0 ; o.samples.resize ((size_t) o.got * ch) ; }
	for (int s = SF_STR_FIRST ; s <= SF_STR_LAST ; s++) { const char *p = sf_get_string (f, s) ; o.strings += p ? p : "\x01" ; o.strings += '\n' ; }
	o.close_rc = sf_close (f) ;
}

static bool embeddable (int format) { int m = format & SF_FORMAT_TYPEMASK ; return m == SF_FORMAT_WAV || m == SF_FORMAT_AIFF || m == SF_FORMAT_AU ; }

static Result run_read (const Case &c, Result r)
{	OpenSpec s ; s.format = (int) c.geti ("format") ; s.ch = (int) c.geti ("ch") ; s.rate = 22050 ; int ch = s.ch ; long long N = c.geti ("n") ;
	const Codec *cd = codec_of (s.format) ; bool vox = cd->subtype == SF_FORMAT_VOX_ADPCM ; if (vox && ((N * ch) & 1)) N ++ ;
	bool raw = (s.format & SF_FORMAT_TYPEMASK) == SF_FORMAT_RAW ;
	auto fail = [&] (const char *kind, const std::string &d) { Result x = r ; x.ok = false ; x.kind = kind ; x.detail = d ; return x ; } ;
	Rng rng ((uint64_t) c.geti ("seed")) ;
	g_raw_reads = ((c.geti ("seed") >> 3) & 3) == 0 ; r.classes.push_back (std::string ("reads:") + (g_raw_reads ? "raw" : "typed")) ;
	// the byte string
	std::vector<uint8_t> bytes ;
	{	MemFile m ; SNDFILE *f = open_write_mem (m, s) ; if (!f) return fail ("populate_failed", sf_strerror (nullptr)) ;
		sf_set_string (f, SF_STR_TITLE, "Title of it") ; sf_set_string (f, SF_STR_ARTIST, "artist name") ; sf_set_string (f, SF_STR_COMMENT, "odd") ;
		std::vector<short> a ((size_t) N * ch) ; for (auto &x : a) x = (short) rng.next () ; if (N && sf_writef_short (f, a.data (), N) != N) { sf_close (f) ; return fail ("populate_failed", "short write") ; }
		sf_close (f) ; bytes = m.data ;
	}
	int mut = (int) c.geti ("mut") ; size_t cut = bytes.empty () ? 0 : (size_t) c.geti ("cut") * bytes.size () / 1000 ;
	long long big = c.geti ("bigchunk", 0) ; bool has_big = false ;
	if (big && mut == 0)
	{	std::vector<uint8_t> body ((size_t) big) ; for (auto &b : body) b = (uint8_t) rng.next () ; bool be = bytes.size () >= 4 && (memcmp (bytes.data (), "FORM", 4) == 0 || memcmp (bytes.data (), "RIFX", 4) == 0) ;
		std::vector<uint8_t> ck = iff_chunk ("JUNK", body, be) ; has_big = iff_insert (bytes, "data", ck) || iff_insert (bytes, "SSND", ck) ;
	}
	r.classes.push_back (std::string ("bigchunk:") + (has_big ? "1" : "0")) ;
	long long annot = c.geti ("annot", 0) ; bool has_annot = false ;
	if (annot && mut == 0 && (s.format & SF_FORMAT_TYPEMASK) == SF_FORMAT_AU && bytes.size () >= 24)
	{	// AU annotation field: the data offset grows and that many bytes sit between the 24-byte header and the audio (the library never writes one)
		bool be = memcmp (bytes.data (), ".snd", 4) == 0 ; uint32_t off = be ? rd_be32 (bytes.data () + 4) : rd_le32 (bytes.data () + 4) ;
		if (off >= 24 && off <= bytes.size ())
		{	std::vector<uint8_t> a ((size_t) annot) ; for (size_t k = 0 ; k < a.size () ; k++) a [k] = (uint8_t) ('A' + k % 23) ; bytes.insert (bytes.begin () + (long) off, a.begin (), a.end ()) ;
			uint32_t noff = off + (uint32_t) annot ; for (int k = 0 ; k < 4 ; k++) bytes [4 + (size_t) k] = (uint8_t) (be ? noff >> (24 - 8 * k) : noff >> (8 * k)) ; has_annot = true ;
		}
	}
	r.classes.push_back (std::string ("au_annotation:") + (has_annot ? "1" : "0")) ;
	long long id3 = c.geti ("id3", 0) ; bool has_id3 = false ;
	if (id3 && mut == 0 && !raw && (s.format & SF_FORMAT_TYPEMASK) == SF_FORMAT_WAV)
	{	// an ID3v2.3 tag in front of the file (tag header: "ID3", version, flags, 28-bit sync-safe size), as tagging tools prepend it
		std::vector<uint8_t> tag = { 'I', 'D', '3', 3, 0, 0, (uint8_t) ((id3 >> 21) & 0x7f), (uint8_t) ((id3 >> 14) & 0x7f), (uint8_t) ((id3 >> 7) & 0x7f), (uint8_t) (id3 & 0x7f) } ;
		for (long long k = 0 ; k < id3 ; k++) tag.push_back ((uint8_t) (k % 5 == 0 ? 0 : 'a' + k % 20)) ;
		bytes.insert (bytes.begin (), tag.begin (), tag.end ()) ; has_id3 = true ; r.sig.seti ("id3", 1) ;
	}
	r.classes.push_back (std::string ("id3:") + (has_id3 ? "1" : "0")) ;
	if (!bytes.empty ())
	{	if (mut == 1) bytes.resize (cut) ; else if (mut == 2) bytes [cut % bytes.size ()] ^= (uint8_t) (1 + rng.below (255)) ;
		else if (mut == 3) for (int i = 0 ; i < 6 ; i++) { size_t span = bytes.size () > 4 ? std::min<size_t> (bytes.size () - 4, 60) : 0 ; bytes [span ? 4 + rng.below (span) : 0] = (uint8_t) rng.next () ; }
	}
	auto mkinfo = [&] () { SF_INFO i ; memset (&i, 0, sizeof (i)) ; if (raw) { i.format = s.format ; i.channels = ch ; i.samplerate = s.rate ; } return i ; } ;
	std::set<int> fds0 = open_fds () ;
	std::string base = scratch_dir () + "/c14_" + std::to_string ((long) getpid ()) ;
	std::map<std::string, Obs> obs ;
	// virtual I/O
	{	MemFile m ; m.data = bytes ; SF_INFO i = mkinfo () ; SNDFILE *f = open_mem (m, SFM_READ, &i) ; observe (f, i, obs ["vio"], vox) ; }
	// path
	std::string path = base + ".dat" ;
	// SVX stores a file name in its NAME chunk and the reader treats "name on disk as long as the chunk" specially: give the file such a name
	if ((s.format & SF_FORMAT_TYPEMASK) == SF_FORMAT_SVX && (c.geti ("seed") & 1))
		for (auto &ck : walk_iff (bytes)) if (ck.id == "NAME" && ck.size >= 1 && ck.size <= 100) { path = scratch_dir () + "/" + std::string ((size_t) ck.size, 'n') ; r.classes.push_back ("svx_name_length_matches_chunk") ; break ; }
	write_file (path, bytes) ;
	{	SF_INFO i = mkinfo () ; SNDFILE *f = sf_open (path.c_str (), SFM_READ, &i) ; observe (f, i, obs ["path"], vox) ; }
	// descriptor, close_desc 0 / 1
	for (int cd1 = 0 ; cd1 < 2 ; cd1++)
	{	int fd = open (path.c_str (), O_RDONLY) ; SF_INFO i = mkinfo () ; SNDFILE *f = sf_open_fd (fd, SFM_READ, &i, cd1) ; Obs &o = obs [cd1 ? "fd1" : "fd0"] ; observe (f, i, o, vox) ;
		bool still = fcntl (fd, F_GETFD) != -1 ;
		if (f && cd1 && still) o.fdnote = "descriptor still open after sf_close although close_desc was true" ;
		if (f && !cd1 && !still) o.fdnote = "descriptor closed by sf_close although close_desc was false" ;
		if (still) close (fd) ;
	}
	// the same with descriptor number 0 (standard input closed first, so that open returns 0) - a legal descriptor like any other;
	// and sf_open by path while 0 is free, so that the library's own descriptor is 0
	if ((c.geti ("seed") % 8) == 1)
	{	int saved = dup (0) ;
		if (saved >= 0)
		{	close (0) ; int fd = open (path.c_str (), O_RDONLY) ;
			if (fd == 0)
			{	SF_INFO i = mkinfo () ; SNDFILE *f = sf_open_fd (0, SFM_READ, &i, 1) ; Obs &o = obs ["fd1_zero"] ; observe (f, i, o, vox) ;
				bool still = fcntl (0, F_GETFD) != -1 ; if (f && still) o.fdnote = "descriptor 0 still open after sf_close although close_desc was true" ; if (still) close (0) ;
				SF_INFO i2 = mkinfo () ; SNDFILE *f2 = sf_open (path.c_str (), SFM_READ, &i2) ; Obs &o2 = obs ["path_zero"] ; observe (f2, i2, o2, vox) ;
				if (fcntl (0, F_GETFD) != -1) { o2.fdnote = "sf_open / sf_close left the descriptor it had opened itself (number 0) open" ; close (0) ; }
			}
			else if (fd > 0) close (fd) ;
			dup2 (saved, 0) ; close (saved) ;
			r.classes.push_back ("descriptor_zero:1") ;
		}
	}
	unlink (path.c_str ()) ;
	// embedded at offset k with leading and trailing junk
	bool do_embed = mut == 0 && embeddable (s.format) ;
	if (do_embed)
	{	size_t lead = (size_t) c.geti ("lead"), trail = (size_t) c.geti ("trail") ; std::vector<uint8_t> big (lead, 0x4a) ; for (auto &b : big) b = (uint8_t) rng.next () ;
		big.insert (big.end (), bytes.begin (), bytes.end ()) ;
		if (trail == 600 && bytes.size () >= 4)
		{	bool rifx = memcmp (bytes.data (), "RIFX", 4) == 0, riff = memcmp (bytes.data (), "RIFF", 4) == 0, form = memcmp (bytes.data (), "FORM", 4) == 0 ;
			auto put32 = [&] (uint32_t v, bool be) { for (int i = 0 ; i < 4 ; i++) big.push_back ((uint8_t) (v >> (be ? 24 - 8 * i : 8 * i))) ; } ;
			auto puts4 = [&] (const char *t) { big.insert (big.end (), t, t + 4) ; } ;
			if (big.size () & 1) big.push_back (0) ;
			if (riff || rifx) { puts4 ("LIST") ; put32 (4 + 8 + 6, rifx) ; puts4 ("INFO") ; puts4 ("INAM") ; put32 (6, rifx) ; const char g [] = "GHOST" ; big.insert (big.end (), g, g + 6) ; }
			else if (form) { puts4 ("NAME") ; put32 (6, true) ; const char g [] = "GHOST" ; big.insert (big.end (), g, g + 6) ; }
			else for (size_t k = 0 ; k < 24 ; k++) big.push_back ((uint8_t) rng.next ()) ;
		}
		else for (size_t k = 0 ; k < trail ; k++) big.push_back ((uint8_t) rng.next ()) ;
		std::string ep = base + ".emb" ; write_file (ep, big) ; int fd = open (ep.c_str (), O_RDONLY) ; lseek (fd, (off_t) lead, SEEK_SET) ;
		SF_INFO i = mkinfo () ; SNDFILE *f = sf_open_fd (fd, SFM_READ, &i, 1) ; observe (f, i, obs ["embed"], vox) ; if (fcntl (fd, F_GETFD) != -1) close (fd) ; unlink (ep.c_str ()) ;
		r.sig.seti ("outer_len", (long long) big.size ()) ; r.sig.seti ("trail", (long long) trail) ;
		for (auto &ck : walk_iff (bytes)) if (ck.id == "data" || ck.id == "SSND") r.sig.seti ("data_odd", (long long) (ck.size & 1)) ;
	}
	// non-seekable pipe
	bool do_pipe = mut == 0 && embeddable (s.format) && is_granular (s.format) && bytes.size () <= 900000 ;
	if (do_pipe)
	{	int p [2] ; if (pipe (p) == 0 && (bytes.size () <= 60000 || fcntl (p [1], F_SETPIPE_SZ, 1 << 20) >= (int) bytes.size ()))
		{	size_t w = 0 ; while (w < bytes.size ()) { ssize_t k = write (p [1], bytes.data () + w, bytes.size () - w) ; if (k <= 0) break ; w += (size_t) k ; }
			close (p [1]) ; SF_INFO i = mkinfo () ; SNDFILE *f = sf_open_fd (p [0], SFM_READ, &i, 1) ; observe (f, i, obs ["pipe"], vox) ; if (fcntl (p [0], F_GETFD) != -1) close (p [0]) ;
		}
	}
	// the same pipe fed slowly by another process while a timer signal (handler installed without SA_RESTART) keeps interrupting the
	// reader: interrupted reads are not end of data, the samples must still be the same
	bool do_slow = do_pipe && (c.geti ("seed") % 4) == 0 && bytes.size () <= 200000 ;
	if (do_slow)
	{	int p [2] ; if (pipe (p) == 0)
		{	fflush (nullptr) ; pid_t wr = fork () ;
			if (wr == 0)
			{	close (p [0]) ; size_t w = 0, step = bytes.size () / 6 + 1 ; while (w < bytes.size ()) { size_t n = std::min (step, bytes.size () - w) ; ssize_t k = write (p [1], bytes.data () + w, n) ; if (k <= 0) break ; w += (size_t) k ; usleep (1500) ; } _exit (0) ; }
			close (p [1]) ;
			struct sigaction sa, old ; memset (&sa, 0, sizeof (sa)) ; sa.sa_handler = [] (int) { } ; sigemptyset (&sa.sa_mask) ; sa.sa_flags = 0 ; sigaction (SIGALRM, &sa, &old) ;
			struct itimerval tv, off ; memset (&tv, 0, sizeof (tv)) ; memset (&off, 0, sizeof (off)) ; tv.it_interval.tv_usec = 400 ; tv.it_value.tv_usec = 400 ; setitimer (ITIMER_REAL, &tv, nullptr) ;
			SF_INFO i = mkinfo () ; SNDFILE *f = sf_open_fd (p [0], SFM_READ, &i, 1) ; observe (f, i, obs ["slowpipe"], vox) ;
			setitimer (ITIMER_REAL, &off, nullptr) ; sigaction (SIGALRM, &old, nullptr) ;
			if (fcntl (p [0], F_GETFD) != -1) close (p [0]) ; int st ; while (waitpid (wr, &st, 0) < 0 && errno == EINTR) { }
		}
	}
	r.classes.push_back (std::string ("slowpipe:") + (do_slow ? "1" : "0")) ;
	r.classes.push_back (std::string ("embed:") + (do_embed ? "1" : "0")) ; r.classes.push_back (std::string ("pipe:") + (do_pipe ? "1" : "0")) ; r.classes.push_back ("mut:" + std::to_string (mut)) ;
	r.classes.push_back (std::string ("opened:") + (obs ["vio"].opened ? "1" : "0")) ;
	r.nontrivial = N >= 1 && obs.size () >= 3 ;
	if (open_fds () != fds0) return fail ("descriptor_set_changed", "a descriptor other than the one handed to sf_open_fd changed state") ;
	for (auto &kv : obs) if (!kv.second.fdnote.empty ()) return fail ("close_desc_contract", kv.first + ": " + kv.second.fdnote) ;
	const Obs &ref = obs ["vio"] ;
	for (auto &kv : obs)
	{	if (kv.first == "vio") continue ; const Obs &o = kv.second ; r.sig.set ("route", kv.first) ;
		if (o.opened != ref.opened) { Result x = fail ("route_open_outcome_differs", kv.first + ": " + o.describe () + "   vio: " + ref.describe ()) ; x.sig.set ("route", kv.first) ; return x ; }
		if (!o.opened) { if (o.err != ref.err && kv.first != "embed" && kv.first != "pipe" && kv.first != "slowpipe") { Result x = fail ("route_error_differs", kv.first + ": " + std::to_string (o.err) + " (" + sf_error_number (o.err) + ") vio: " + std::to_string (ref.err) + " (" + sf_error_number (ref.err) + ")") ; x.sig.set ("route", kv.first) ; x.sig.seti ("route_err", o.err) ; x.sig.seti ("vio_err", ref.err) ; return x ; } continue ; }
		bool pipe_route = kv.first == "pipe" || kv.first == "slowpipe" ;
		bool info_same = o.info.samplerate == ref.info.samplerate && o.info.channels == ref.info.channels && o.info.format == ref.info.format && o.info.sections == ref.info.sections && (pipe_route || (o.info.frames == ref.info.frames && o.info.seekable == ref.info.seekable)) ;
		if (!info_same) { Result x = fail ("route_info_differs", kv.first + ": " + o.describe () + "   vio: " + ref.describe ()) ; x.sig.set ("route", kv.first) ; return x ; }
		if (o.got != ref.got || o.samples != ref.samples) { Result x = fail ("route_samples_differ", kv.first + ": " + o.describe () + "   vio: " + ref.describe ()) ; x.sig.set ("route", kv.first) ; return x ; }
		if (o.strings != ref.strings && !pipe_route) { Result x = fail ("route_strings_differ", kv.first) ; x.sig.set ("route", kv.first) ; return x ; }
		if (o.close_rc != 0) { Result x = fail ("route_close_failed", kv.first + " " + std::to_string (o.close_rc)) ; x.sig.set ("route", kv.first) ; return x ; }
	}
	return r ;
}

static void mask_names (int format, std::vector<uint8_t> &d)
{	int maj = format & SF_FORMAT_TYPEMASK ;
	if (maj == SF_FORMAT_MPC2K && d.size () >= 19) memset (d.data () + 2, 0, 17) ;
	if (maj == SF_FORMAT_SVX)
	{	// the NAME chunk holds the file name (so its length varies too): cut it out and blank the FORM size
		for (auto &ck : walk_iff (d)) if (ck.id == "NAME" && ck.data + ck.size <= d.size ())
		{	size_t end = ck.data + (size_t) ck.size + ((size_t) ck.size & 1) ; if (end > d.size ()) end = d.size () ;
			d.erase (d.begin () + (long) ck.hdr, d.begin () + (long) end) ; break ;
		}
		if (d.size () >= 8) memset (d.data () + 4, 0, 4) ;
	}
}

static Result run_write (const Case &c, Result r)
{	OpenSpec s ; s.format = (int) c.geti ("format") ; s.ch = (int) c.geti ("ch") ; s.rate = 22050 ; int ch = s.ch ; long long N = c.geti ("n") ;
	const Codec *cd = codec_of (s.format) ; bool vox = cd->subtype == SF_FORMAT_VOX_ADPCM ; if (vox && ((N * ch) & 1)) N ++ ;
	auto fail = [&] (const char *kind, const std::string &d) { Result x = r ; x.ok = false ; x.kind = kind ; x.detail = d ; return x ; } ;
	Rng rng ((uint64_t) c.geti ("seed")) ; std::vector<short> a ((size_t) N * ch) ; for (auto &x : a) x = (short) rng.next () ;
	auto fill = [&] (SNDFILE *f) -> bool { sf_count_t w = N ? sf_writef_short (f, a.data (), N) : 0 ; return w == N ; } ;
	auto mkinfo = [&] () { SF_INFO i ; memset (&i, 0, sizeof (i)) ; i.format = s.format ; i.channels = ch ; i.samplerate = s.rate ; return i ; } ;
	std::set<int> fds0 = open_fds () ; std::string base = scratch_dir () + "/c14w_" + std::to_string ((long) getpid ()) ;
	std::map<std::string, std::vector<uint8_t>> out ;
	{	MemFile m ; SF_INFO i = mkinfo () ; SNDFILE *f = open_mem (m, SFM_WRITE, &i) ; if (!f) return fail ("vio_open_failed", sf_strerror (nullptr)) ; if (!fill (f)) { sf_close (f) ; return fail ("short_write", "vio") ; } if (sf_close (f)) return fail ("close_failed", "vio") ; out ["vio"] = m.data ; }
	{	std::string p = base + ".dat" ; unlink (p.c_str ()) ; SF_INFO i = mkinfo () ; SNDFILE *f = sf_open (p.c_str (), SFM_WRITE, &i) ; if (!f) return fail ("route_open_outcome_differs", std::string ("path: ") + sf_strerror (nullptr)) ; if (!fill (f)) { sf_close (f) ; return fail ("short_write", "path") ; } if (sf_close (f)) return fail ("close_failed", "path") ; read_file (p, out ["path"]) ; unlink (p.c_str ()) ; }
	for (int cd1 = 0 ; cd1 < 2 ; cd1++)
	{	std::string p = base + ".fd" ; unlink (p.c_str ()) ; int fd = open (p.c_str (), O_RDWR | O_CREAT | O_TRUNC, 0644) ; SF_INFO i = mkinfo () ; SNDFILE *f = sf_open_fd (fd, SFM_WRITE, &i, cd1) ;
		if (!f) { close (fd) ; unlink (p.c_str ()) ; return fail ("route_open_outcome_differs", std::string ("fd: ") + sf_strerror (nullptr)) ; }
		if (!fill (f)) { sf_close (f) ; close (fd) ; return fail ("short_write", "fd") ; } if (sf_close (f)) return fail ("close_failed", "fd") ;
		bool still = fcntl (fd, F_GETFD) != -1 ; if (cd1 && still) { close (fd) ; return fail ("close_desc_contract", "descriptor still open although close_desc was true") ; } if (!cd1 && !still) return fail ("close_desc_contract", "descriptor closed although close_desc was false") ; if (still) close (fd) ;
		read_file (p, out [cd1 ? "fd1" : "fd0"]) ; unlink (p.c_str ()) ;
	}
	bool emb = embeddable (s.format) ;
	if (emb)
	{	// existing container file of L bytes, descriptor positioned at k <= L: the sound file is appended, the existing bytes stay
		size_t L = (size_t) c.geti ("lead") + (size_t) c.geti ("trail"), k = (size_t) c.geti ("lead") ; std::vector<uint8_t> old (L) ; for (auto &b : old) b = (uint8_t) rng.next () ;
		std::string p = base + ".emb" ; write_file (p, old) ; int fd = open (p.c_str (), O_RDWR) ; lseek (fd, (off_t) k, SEEK_SET) ;
		SF_INFO i = mkinfo () ; SNDFILE *f = sf_open_fd (fd, SFM_WRITE, &i, 1) ;
		if (!f) { if (fcntl (fd, F_GETFD) != -1) close (fd) ; unlink (p.c_str ()) ; return fail ("route_open_outcome_differs", std::string ("embedded write: ") + sf_strerror (nullptr)) ; }
		if (!fill (f)) { sf_close (f) ; return fail ("short_write", "embed") ; } if (sf_close (f)) return fail ("close_failed", "embed") ; if (fcntl (fd, F_GETFD) != -1) close (fd) ;
		std::vector<uint8_t> got ; read_file (p, got) ; unlink (p.c_str ()) ;
		if (got.size () < L || memcmp (got.data (), old.data (), L) != 0) { Result x = fail ("embedded_write_damaged_container", "the " + std::to_string (L) + " bytes that were in the container file before are not intact (descriptor was at " + std::to_string (k) + ")") ; x.sig.set ("route", "embed") ; return x ; }
		out ["embed"] = std::vector<uint8_t> (got.begin () + (long) L, got.end ()) ;
	}
	r.classes.push_back (std::string ("embed:") + (emb ? "1" : "0")) ;
	r.nontrivial = N >= 1 ;
	if (open_fds () != fds0) return fail ("descriptor_set_changed", "") ;
	std::vector<uint8_t> ref = out ["vio"] ; mask_names (s.format, ref) ;
	for (auto &kv : out)
	{	if (kv.first == "vio") continue ; std::vector<uint8_t> o = kv.second ; mask_names (s.format, o) ;
		if (o != ref) { size_t i = 0 ; while (i < o.size () && i < ref.size () && o [i] == ref [i]) i ++ ; Result x = fail ("route_bytes_differ", kv.first + ": size " + std::to_string (o.size ()) + " vs vio " + std::to_string (ref.size ()) + ", first difference at " + std::to_string (i)) ; x.sig.set ("route", kv.first) ; return x ; }
	}
	return r ;
}

static Result run_case (const Case &c)
{	Result r ; r.sig = sig_of (c) ; r.dhash = fnv_str (c.str ()) ;
	r.classes = { "kind:" + c.gets ("kind"), std::string ("container:") + major_name ((int) c.geti ("format")) } ;
	return c.gets ("kind") == "read" ? run_read (c, r) : run_write (c, r) ;
}

int main (int argc, char **argv)
{	init_io () ;
	ctx.property = "C14" ;
	ctx.parse (argc, argv) ;
	scratch_dir () ;
	int rc = rc_main (ctx, gen_case, run_case, sig_of) ;
	rm_scratch () ;
	return rc ;
}
