// C20 - built-in codec kernels conform to their published definitions for every input.
//   g711   : all 256 codes through 4 read types, all 65536 shorts (+ int/float/double images) encoded; table == ITU-T G.711
//   ieee   : float32 / double64 portable serialisers (SFC_TEST_IEEE_FLOAT_REPLACE) vs native bits, both endians, both directions
//   endian : ENDSWAP_16/32/64 and psf_get/put helpers of src/sfendian.h
//   adpcm  : WAV IMA, WAV MS, AIFF ima4 block decoders vs independent reference decoders on generated block bytes (rapidcheck)
#include "vf_file.hpp"
extern "C" {
#include "sfconfig.h"
#include "sfendian.h"
}
using namespace vf ;

static Ctx ctx ;
static bool g_failed = false ;

static bool report (const Case &c, const Result &r)
{	RunFn give = [&] (const Case &) { return r ; } ;
	bool bad = execute (ctx, c, give, nullptr, false) ;
	if (bad) g_failed = true ;
	return bad ;
}
static Result failr (const std::string &kind, const std::string &detail) { Result r ; r.ok = false ; r.kind = kind ; r.detail = detail ; return r ; }

// ================================================================ G.711 reference (ITU-T G.711, 16-bit aligned output)
static int ref_ulaw_decode (int code)
{	int u = ~code & 0xff ; int sign = u & 0x80, exponent = (u >> 4) & 7, mantissa = u & 0x0f ;
	int mag = ((mantissa << 3) + 0x84) << exponent ; mag -= 0x84 ;
	return sign ? -mag : mag ;
}
static int ref_alaw_decode (int code)
{	int a = code ^ 0x55 ; int t = (a & 0x0f) << 4 ; int seg = (a & 0x70) >> 4 ;
	if (seg == 0) t += 8 ; else if (seg == 1) t += 0x108 ; else { t += 0x108 ; t <<= seg - 1 ; }
	return (a & 0x80) ? t : -t ;
}

static SNDFILE *open_raw_read (MemFile &m, int sub, int endian, int ch = 1)
{	SF_INFO i ; memset (&i, 0, sizeof (i)) ; i.format = SF_FORMAT_RAW | sub | endian ; i.channels = ch ; i.samplerate = 8000 ;
	return open_mem (m, SFM_READ, &i) ;
}
static SNDFILE *open_raw_write (MemFile &m, int sub, int endian, int ch = 1)
{	SF_INFO i ; memset (&i, 0, sizeof (i)) ; i.format = SF_FORMAT_RAW | sub | endian ; i.channels = ch ; i.samplerate = 8000 ;
	return open_mem (m, SFM_WRITE, &i) ;
}

static void task_g711 (int sub)
{	const char *nm = sub == SF_FORMAT_ULAW ? "ulaw" : "alaw" ;
	Case c ; c.set ("task", "g711") ; c.set ("law", nm) ;
	auto ref = sub == SF_FORMAT_ULAW ? ref_ulaw_decode : ref_alaw_decode ;
	// self-test of the reference against tabulated G.711 values (first/last level of segments)
	if (sub == SF_FORMAT_ULAW && (ref_ulaw_decode (0xff) != 0 || ref_ulaw_decode (0x7f) != 0 || ref_ulaw_decode (0x00) != -32124 || ref_ulaw_decode (0x80) != 32124 || ref_ulaw_decode (0xfe) != 8 || ref_ulaw_decode (0xef) != 132 || ref_ulaw_decode (0xe0) != 372))
	{	fprintf (outf (), "SELFTEST ulaw reference broken\n") ; exit (2) ; }
	if (sub == SF_FORMAT_ALAW && (ref_alaw_decode (0xd5) != 8 || ref_alaw_decode (0x55) != -8 || ref_alaw_decode (0xaa) != 32256 || ref_alaw_decode (0x2a) != -32256 || ref_alaw_decode (0xc5) != 264))
	{	fprintf (outf (), "SELFTEST alaw reference broken\n") ; exit (2) ; }
	// ---- decode: all 256 codes through the 4 read types
	MemFile m ; m.data.resize (256) ; for (int k = 0 ; k < 256 ; k++) m.data [k] = (uint8_t) k ;
	short sv [256] ; int iv [256] ; float fv [256] ; double dv [256] ;
	{ MemFile a = m ; SNDFILE *f = open_raw_read (a, sub, 0) ; if (!f || sf_read_short (f, sv, 256) != 256) { report (c, failr ("g711_read_failed", "short")) ; return ; } sf_close (f) ; }
	{ MemFile a = m ; SNDFILE *f = open_raw_read (a, sub, 0) ; sf_read_int (f, iv, 256) ; sf_close (f) ; }
	{ MemFile a = m ; SNDFILE *f = open_raw_read (a, sub, 0) ; sf_read_float (f, fv, 256) ; sf_close (f) ; }
	{ MemFile a = m ; SNDFILE *f = open_raw_read (a, sub, 0) ; sf_read_double (f, dv, 256) ; sf_close (f) ; }
	for (int k = 0 ; k < 256 ; k++)
	{	int r = ref (k) ; ctx.ev.evaluations += 4 ; ctx.ev.extra ["distinct_counted"] += 4 ;
		if (sv [k] != r) { report (c, failr ("g711_decode_short", std::string (nm) + " code " + std::to_string (k) + " decodes to " + std::to_string (sv [k]) + " reference " + std::to_string (r))) ; return ; }
		if (iv [k] != r * 65536) { report (c, failr ("g711_decode_int", std::string (nm) + " code " + std::to_string (k) + " int " + std::to_string (iv [k]))) ; return ; }
		if (fv [k] != (float) r / 32768.0f) { report (c, failr ("g711_decode_float", std::string (nm) + " code " + std::to_string (k))) ; return ; }
		if (dv [k] != (double) r / 32768.0) { report (c, failr ("g711_decode_double", std::string (nm) + " code " + std::to_string (k))) ; return ; }
	}
	// decode levels, sorted, for the nearest-level check
	std::vector<int> levels ; for (int k = 0 ; k < 256 ; k++) levels.push_back (ref (k)) ;
	std::sort (levels.begin (), levels.end ()) ; levels.erase (std::unique (levels.begin (), levels.end ()), levels.end ()) ;
	int slack = sub == SF_FORMAT_ULAW ? 3 : 7 ;	// low 2 / 3 bits of the 16-bit magnitude are dropped before compression
	// ---- encode: all 65536 shorts, and their int / float / double images
	std::vector<uint8_t> short_codes ;
	for (int t = 0 ; t < 4 ; t++)
	{	MemFile w ; SNDFILE *f = open_raw_write (w, sub, 0) ; if (!f) { report (c, failr ("g711_open_write", "")) ; return ; }
		std::vector<uint8_t> buf (65536 * 8) ;
		for (int x = -32768 ; x <= 32767 ; x++)
		{	size_t i = (size_t) (x + 32768) ;
			if (t == T_SHORT) ((short *) buf.data ()) [i] = (short) x ;
			else if (t == T_INT) ((int *) buf.data ()) [i] = x * 65536 ;
			else if (t == T_FLOAT) ((float *) buf.data ()) [i] = (float) x / 32768.0f ;
			else ((double *) buf.data ()) [i] = (double) x / 32768.0 ;
		}
		if (sf_write_t (f, t, buf.data (), 65536) != 65536) { sf_close (f) ; report (c, failr ("g711_write_failed", stype_name [t])) ; return ; }
		sf_close (f) ;
		if (w.data.size () != 65536) { report (c, failr ("g711_write_size", std::to_string (w.data.size ()))) ; return ; }
		// the int image x << 16 of a 16-bit value carries exactly the same sample: it must get the code the short gets
		if (t == T_SHORT) short_codes = w.data ;
		if (t == T_INT) for (int x = -32768 ; x <= 32767 ; x++) if (w.data [(size_t) (x + 32768)] != short_codes [(size_t) (x + 32768)])
		{	report (c, failr ("g711_int_and_short_disagree", std::string (nm) + " input " + std::to_string (x) + ": short -> code " + std::to_string (short_codes [(size_t) (x + 32768)]) + ", int (x << 16) -> code " + std::to_string (w.data [(size_t) (x + 32768)]))) ; return ; }
		int prev = -1000000 ;
		for (int x = -32768 ; x <= 32767 ; x++)
		{	int code = w.data [(size_t) (x + 32768)] ; int d = ref (code) ;
			ctx.ev.evaluations ++ ; ctx.ev.extra ["distinct_counted"] ++ ;
			double xin = t >= T_FLOAT ? (double) x * 32767.0 / 32768.0 : (double) x ;	// float input x/32768 is scaled by 0x7FFF inside the library
			// G.711 is an interval quantiser: the (sign-magnitude) input must lie inside the quantisation interval of the level
			// it is mapped to - width 8 << seg (mu-law) / 16 or 16 << (seg - 1) (A-law) in 16-bit units, the level being the
			// interval midpoint - up to the low bits the 16 -> 14 / 13 bit reduction drops; beyond the top interval it saturates.
			int segm = sub == SF_FORMAT_ULAW ? ((~code) >> 4) & 7 : ((code ^ 0x55) >> 4) & 7 ;
			double w = sub == SF_FORMAT_ULAW ? (double) (8 << segm) : (segm < 2 ? 16.0 : (double) (16 << (segm - 1))) ;
			double maxlevel = (double) levels.back () ;
			bool okq ;
			if (fabs (xin) >= maxlevel) okq = fabs ((double) d) == maxlevel && ((d < 0) == (xin < 0)) ;
			else okq = fabs (fabs (xin) - fabs ((double) d)) <= w / 2 + slack + (t >= T_FLOAT ? 2 : 0) && (d == 0 || (d < 0) == (x < 0)) ;	// sign-magnitude coding: the sign of the level is the sign of the input (mu-law has a zero level, A-law has none)
			if (!okq)
			{	report (c, failr ("g711_encode_outside_interval", std::string (nm) + " " + stype_name [t] + " input " + std::to_string (x) + " -> code " + std::to_string (code) + " decodes to " + std::to_string (d))) ; return ; }
			if (d < prev) { report (c, failr ("g711_encode_not_monotone", std::string (nm) + " " + stype_name [t] + " input " + std::to_string (x))) ; return ; }
			prev = d ;
		}
	}
	// ---- enc (dec (c)) == c for all codes, through each of the four entry types (mu-law: the two zero codes are one level, and the
	//      level 0 - whose sign is positive - must come out as the positive zero code 0xFF)
	for (int t = 0 ; t < 4 ; t++)
	{	MemFile w ; SNDFILE *f = open_raw_write (w, sub, 0) ; if (!f) { report (c, failr ("g711_open_write", "")) ; return ; }
		std::vector<uint8_t> lv (256 * 8) ;
		for (int k = 0 ; k < 256 ; k++)
		{	int v = ref (k) ;
			if (t == T_SHORT) ((short *) lv.data ()) [k] = (short) v ; else if (t == T_INT) ((int *) lv.data ()) [k] = v * 65536 ;
			else if (t == T_FLOAT) ((float *) lv.data ()) [k] = (float) v / 32768.0f ; else ((double *) lv.data ()) [k] = (double) v / 32768.0 ;
		}
		sf_count_t wr = sf_write_t (f, t, lv.data (), 256) ; sf_close (f) ;
		if (wr != 256 || w.data.size () != 256) { report (c, failr ("g711_write_failed", stype_name [t])) ; return ; }
		for (int k = 0 ; k < 256 ; k++)
		{	ctx.ev.evaluations ++ ; ctx.ev.extra ["distinct_counted"] ++ ;
			// float / double inputs are scaled by 0x7FFF/0x8000 inside the library: the level may come out one step lower in magnitude, never a different sign
			if (t >= T_FLOAT) { if (ref (w.data [k]) != 0 && ref (k) != 0 && (ref (w.data [k]) < 0) != (ref (k) < 0)) { report (c, failr ("g711_enc_dec_not_identity", std::string (nm) + " " + stype_name [t] + " code " + std::to_string (k) + " re-encodes with the other sign as " + std::to_string (w.data [k]))) ; return ; } }
			else
			{	if (w.data [k] != k && ref (w.data [k]) != ref (k))
				{	report (c, failr ("g711_enc_dec_not_identity", std::string (nm) + " " + stype_name [t] + " code " + std::to_string (k) + " -> " + std::to_string (w.data [k]))) ; return ; }
				if (w.data [k] != k && !(sub == SF_FORMAT_ULAW && ref (k) == 0))
				{	report (c, failr ("g711_enc_dec_not_identity", std::string (nm) + " " + stype_name [t] + " code " + std::to_string (k) + " re-encodes as " + std::to_string (w.data [k]))) ; return ; }
			}
			if (sub == SF_FORMAT_ULAW && ref (k) == 0 && w.data [k] != 0xff)
			{	report (c, failr ("g711_zero_not_positive_zero", std::string (nm) + " " + stype_name [t] + ": the level 0 (from code " + std::to_string (k) + ") is encoded as " + std::to_string (w.data [k]) + ", G.711 positive zero is 255")) ; return ; }
		}
	}
	ctx.ev.classes [std::string ("g711:") + nm] ++ ;
}

// ================================================================ IEEE serialisers
// patterns of one exponent: mantissa edge set + stratified fill (quick) or every mantissa (thorough)
static void float_mantissas (std::vector<uint32_t> &out, bool all, uint64_t seed)
{	out.clear () ;
	if (all) { out.resize (1u << 23) ; for (uint32_t m = 0 ; m < (1u << 23) ; m++) out [m] = m ; return ; }
	for (int b = 0 ; b < 23 ; b++) { out.push_back (1u << b) ; out.push_back ((1u << b) - 1) ; out.push_back (((1u << 23) - 1) ^ (1u << b)) ; }
	out.push_back (0) ; out.push_back ((1u << 23) - 1) ;
	Rng r (seed) ; while (out.size () < 32768) out.push_back ((uint32_t) r.next () & ((1u << 23) - 1)) ;
}

static void task_float_exp (int e, bool all)
{	Case c ; c.set ("task", "ieee_float") ; c.seti ("exp", e) ;
	std::vector<uint32_t> mant ; float_mantissas (mant, all, ctx.seed * 1000 + (uint64_t) e) ;
	size_t n = mant.size () * 2 ;
	for (int endian : { SF_ENDIAN_LITTLE, SF_ENDIAN_BIG })
	{	std::vector<uint32_t> bits (n) ;
		for (size_t i = 0 ; i < mant.size () ; i++) { bits [2 * i] = ((uint32_t) e << 23) | mant [i] ; bits [2 * i + 1] = 0x80000000u | ((uint32_t) e << 23) | mant [i] ; }
		// read direction: file bytes of the pattern in this byte order -> portable reader -> must equal the native float
		MemFile m ; m.data.resize (n * 4) ;
		for (size_t i = 0 ; i < n ; i++) { uint32_t b = bits [i] ; uint8_t *p = m.data.data () + 4 * i ;
			if (endian == SF_ENDIAN_LITTLE) { p [0] = b ; p [1] = b >> 8 ; p [2] = b >> 16 ; p [3] = b >> 24 ; } else { p [3] = b ; p [2] = b >> 8 ; p [1] = b >> 16 ; p [0] = b >> 24 ; } }
		MemFile rd ; rd.data = m.data ;
		SNDFILE *f = open_raw_read (rd, SF_FORMAT_FLOAT, endian) ;
		if (!f) { report (c, failr ("ieee_open", sf_strerror (nullptr))) ; return ; }
		sf_command (f, SFC_TEST_IEEE_FLOAT_REPLACE, nullptr, SF_TRUE) ;
		std::vector<float> out (n) ;
		sf_count_t got = sf_read_float (f, out.data (), (sf_count_t) n) ; sf_close (f) ;
		if (got != (sf_count_t) n) { report (c, failr ("ieee_read_count", std::to_string ((long long) got))) ; return ; }
		for (size_t i = 0 ; i < n ; i++)
		{	uint32_t b ; memcpy (&b, &out [i], 4) ;
			if (b != bits [i]) { char d [128] ; snprintf (d, sizeof (d), "float32 %s read: pattern %08x came back %08x", endian == SF_ENDIAN_BIG ? "BE" : "LE", bits [i], b) ; c.seti ("pattern", bits [i]) ; report (c, failr ("ieee_float_read", d)) ; return ; }
		}
		// write direction
		MemFile wr ; SNDFILE *g = open_raw_write (wr, SF_FORMAT_FLOAT, endian) ;
		sf_command (g, SFC_TEST_IEEE_FLOAT_REPLACE, nullptr, SF_TRUE) ;
		std::vector<float> in (n) ; memcpy (in.data (), bits.data (), n * 4) ;
		sf_count_t w = sf_write_float (g, in.data (), (sf_count_t) n) ; sf_close (g) ;
		if (w != (sf_count_t) n || wr.data.size () != n * 4) { report (c, failr ("ieee_write_count", std::to_string ((long long) w))) ; return ; }
		if (memcmp (wr.data.data (), m.data.data (), n * 4) != 0)
		{	size_t i = 0 ; while (memcmp (wr.data.data () + 4 * i, m.data.data () + 4 * i, 4) == 0) i ++ ;
			char d [128] ; snprintf (d, sizeof (d), "float32 %s write: pattern %08x serialised as %s", endian == SF_ENDIAN_BIG ? "BE" : "LE", bits [i], hex (wr.data.data () + 4 * i, 4).c_str ()) ;
			c.seti ("pattern", bits [i]) ; if (report (c, failr ("ieee_float_write", d))) return ; }
		ctx.ev.evaluations += 2 * (long long) n ; ctx.ev.extra ["distinct_counted"] += 2 * (long long) n ;
	}
	ctx.ev.classes ["ieee:float_exponents"] ++ ;
}

static void task_double_exp (int e, size_t per_sign)
{	Case c ; c.set ("task", "ieee_double") ; c.seti ("exp", e) ;
	std::vector<uint64_t> mant ;
	for (int b = 0 ; b < 52 ; b++) { mant.push_back (1ull << b) ; mant.push_back ((1ull << b) - 1) ; mant.push_back (((1ull << 52) - 1) ^ (1ull << b)) ; }
	mant.push_back (0) ; mant.push_back ((1ull << 52) - 1) ;
	Rng r (ctx.seed * 7777 + (uint64_t) e) ; while (mant.size () < per_sign) mant.push_back (r.next () & ((1ull << 52) - 1)) ;
	size_t n = mant.size () * 2 ;
	for (int endian : { SF_ENDIAN_LITTLE, SF_ENDIAN_BIG })
	{	std::vector<uint64_t> bits (n) ;
		for (size_t i = 0 ; i < mant.size () ; i++) { bits [2 * i] = ((uint64_t) e << 52) | mant [i] ; bits [2 * i + 1] = (1ull << 63) | ((uint64_t) e << 52) | mant [i] ; }
		MemFile m ; m.data.resize (n * 8) ;
		for (size_t i = 0 ; i < n ; i++) { uint64_t b = bits [i] ; uint8_t *p = m.data.data () + 8 * i ; for (int k = 0 ; k < 8 ; k++) p [endian == SF_ENDIAN_LITTLE ? k : 7 - k] = (uint8_t) (b >> (8 * k)) ; }
		MemFile rd ; rd.data = m.data ;
		SNDFILE *f = open_raw_read (rd, SF_FORMAT_DOUBLE, endian) ;
		if (!f) { report (c, failr ("ieee_open", sf_strerror (nullptr))) ; return ; }
		sf_command (f, SFC_TEST_IEEE_FLOAT_REPLACE, nullptr, SF_TRUE) ;
		std::vector<double> out (n) ; sf_count_t got = sf_read_double (f, out.data (), (sf_count_t) n) ; sf_close (f) ;
		if (got != (sf_count_t) n) { report (c, failr ("ieee_read_count", std::to_string ((long long) got))) ; return ; }
		for (size_t i = 0 ; i < n ; i++)
		{	uint64_t b ; memcpy (&b, &out [i], 8) ;
			if (b != bits [i]) { char d [160] ; snprintf (d, sizeof (d), "double64 %s read: pattern %016llx came back %016llx", endian == SF_ENDIAN_BIG ? "BE" : "LE", (unsigned long long) bits [i], (unsigned long long) b) ; report (c, failr ("ieee_double_read", d)) ; return ; }
		}
		MemFile wr ; SNDFILE *g = open_raw_write (wr, SF_FORMAT_DOUBLE, endian) ;
		sf_command (g, SFC_TEST_IEEE_FLOAT_REPLACE, nullptr, SF_TRUE) ;
		std::vector<double> in (n) ; memcpy (in.data (), bits.data (), n * 8) ;
		sf_count_t w = sf_write_double (g, in.data (), (sf_count_t) n) ; sf_close (g) ;
		if (w != (sf_count_t) n || wr.data.size () != n * 8) { report (c, failr ("ieee_write_count", std::to_string ((long long) w))) ; return ; }
		if (memcmp (wr.data.data (), m.data.data (), n * 8) != 0)
		{	size_t i = 0 ; while (memcmp (wr.data.data () + 8 * i, m.data.data () + 8 * i, 8) == 0) i ++ ;
			char d [160] ; snprintf (d, sizeof (d), "double64 %s write: pattern %016llx serialised as %s", endian == SF_ENDIAN_BIG ? "BE" : "LE", (unsigned long long) bits [i], hex (wr.data.data () + 8 * i, 8).c_str ()) ;
			if (report (c, failr ("ieee_double_write", d))) return ; }
		ctx.ev.evaluations += 2 * (long long) n ; ctx.ev.extra ["distinct_counted"] += 2 * (long long) n ;
	}
	ctx.ev.classes ["ieee:double_exponents"] ++ ;
}

// ================================================================ byte-order helpers
static void task_endian ()
{	Case c ; c.set ("task", "endian") ;
	for (uint32_t x = 0 ; x < 65536 ; x++)
	{	uint16_t s = ENDSWAP_16 ((uint16_t) x) ; uint16_t ref = (uint16_t) ((x >> 8) | (x << 8)) ;
		if (s != ref || ENDSWAP_16 (s) != (uint16_t) x) { report (c, failr ("endswap16", std::to_string (x))) ; return ; }
		uint8_t b [2] = { (uint8_t) (x >> 8), (uint8_t) x } ;
		if ((uint16_t) psf_get_be16 (b, 0) != (uint16_t) x) { report (c, failr ("psf_get_16", std::to_string (x))) ; return ; }
		ctx.ev.evaluations ++ ; ctx.ev.extra ["distinct_counted"] ++ ;
	}
	Rng r (ctx.seed + 99) ;
	std::vector<uint64_t> vals = { 0, ~0ull, 0x0102030405060708ull, 0x8000000000000000ull, 1 } ;
	for (int b = 0 ; b < 64 ; b++) vals.push_back (1ull << b) ;
	for (int i = 0 ; i < 200000 ; i++) vals.push_back (r.next ()) ;
	for (uint64_t v : vals)
	{	uint32_t x = (uint32_t) v ; uint32_t ref32 = ((x >> 24) & 0xff) | ((x >> 8) & 0xff00) | ((x << 8) & 0xff0000) | (x << 24) ;
		uint64_t ref64 = 0 ; for (int k = 0 ; k < 8 ; k++) ref64 |= ((v >> (8 * k)) & 0xff) << (8 * (7 - k)) ;
		if (ENDSWAP_32 (x) != ref32 || ENDSWAP_32 (ENDSWAP_32 (x)) != x) { report (c, failr ("endswap32", std::to_string (x))) ; return ; }
		if (ENDSWAP_64 (v) != ref64 || ENDSWAP_64 (ENDSWAP_64 (v)) != v) { report (c, failr ("endswap64", std::to_string (v))) ; return ; }
		uint8_t b [8] ; for (int k = 0 ; k < 8 ; k++) b [k] = (uint8_t) (v >> (8 * (7 - k))) ;
		if ((uint64_t) psf_get_be64 (b, 0) != v || (uint64_t) psf_get_le64 (b, 0) != ref64) { report (c, failr ("psf_get_64", std::to_string (v))) ; return ; }
		if ((uint32_t) psf_get_be32 (b, 0) != (uint32_t) (v >> 32) || (uint32_t) psf_get_le32 (b, 4) != ref32 ||
			((uint32_t) psf_get_be24 (b, 0) >> 8) != (uint32_t) (v >> 40) || ((uint32_t) psf_get_le24 (b, 0) >> 8) != (uint32_t) (b [0] | (b [1] << 8) | (b [2] << 16))) { report (c, failr ("psf_get_32", std::to_string (v))) ; return ; }
		uint8_t o [8] ; psf_put_be64 (o, 0, (int64_t) v) ; if (memcmp (o, b, 8) != 0) { report (c, failr ("psf_put_be64", std::to_string (v))) ; return ; }
		psf_put_be32 (o, 0, (int32_t) (v >> 32)) ; if (memcmp (o, b, 4) != 0) { report (c, failr ("psf_put_be32", std::to_string (v))) ; return ; }
		psf_put_be16 (o, 0, (int16_t) (v >> 48)) ; if (memcmp (o, b, 2) != 0) { report (c, failr ("psf_put_be16", std::to_string (v))) ; return ; }
		ctx.ev.evaluations ++ ; ctx.ev.extra ["distinct_counted"] ++ ;
	}
	// array helpers
	{	std::vector<short> a (1000), b (1000) ; for (int i = 0 ; i < 1000 ; i++) a [i] = (short) r.next () ;
		b = a ; endswap_short_array (b.data (), 1000) ; for (int i = 0 ; i < 1000 ; i++) if ((uint16_t) b [i] != ENDSWAP_16 ((uint16_t) a [i])) { report (c, failr ("endswap_short_array", "")) ; return ; }
		std::vector<int> ia (1000), ib ; for (auto &v : ia) v = (int) r.next () ; ib = ia ; endswap_int_array (ib.data (), 1000) ;
		for (int i = 0 ; i < 1000 ; i++) if ((uint32_t) ib [i] != ENDSWAP_32 ((uint32_t) ia [i])) { report (c, failr ("endswap_int_array", "")) ; return ; }
		std::vector<int64_t> la (1000), lb ; for (auto &v : la) v = (int64_t) r.next () ; lb = la ; endswap_int64_t_array (lb.data (), 1000) ;
		for (int i = 0 ; i < 1000 ; i++) if ((uint64_t) lb [i] != ENDSWAP_64 ((uint64_t) la [i])) { report (c, failr ("endswap_int64_t_array", "")) ; return ; }
	}
	ctx.ev.classes ["endian"] ++ ;
}

// ================================================================ ADPCM reference decoders
static const int ima_steps [89] = { 7, 8, 9, 10, 11, 12, 13, 14, 16, 17, 19, 21, 23, 25, 28, 31, 34, 37, 41, 45, 50, 55, 60, 66, 73, 80, 88, 97, 107, 118, 130, 143, 157, 173, 190, 209, 230,
	253, 279, 307, 337, 371, 408, 449, 494, 544, 598, 658, 724, 796, 876, 963, 1060, 1166, 1282, 1411, 1552, 1707, 1878, 2066, 2272, 2499, 2749, 3024, 3327, 3660, 4026, 4428, 4871, 5358, 5894,
	6484, 7132, 7845, 8630, 9493, 10442, 11487, 12635, 13899, 15289, 16818, 18500, 20350, 22385, 24623, 27086, 29794, 32767 } ;
static const int ima_adjust [16] = { -1, -1, -1, -1, 2, 4, 6, 8, -1, -1, -1, -1, 2, 4, 6, 8 } ;
static inline int ima_step (int &pred, int &idx, int n)
{	int step = ima_steps [idx] ; int diff = step >> 3 ;
	if (n & 1) diff += step >> 2 ; if (n & 2) diff += step >> 1 ; if (n & 4) diff += step ;
	pred += (n & 8) ? -diff : diff ; if (pred > 32767) pred = 32767 ; if (pred < -32768) pred = -32768 ;
	idx += ima_adjust [n] ; if (idx < 0) idx = 0 ; if (idx > 88) idx = 88 ;
	return pred ;
}
// WAV layout: per channel 4-byte header, then groups of 4 bytes per channel (8 samples, low nibble first)
static bool ref_ima_wav (const uint8_t *blk, int blocksize, int ch, int spb, std::vector<short> &out)
{	out.assign ((size_t) spb * ch, 0) ; int pred [2], idx [2] ;
	for (int c = 0 ; c < ch ; c++) { pred [c] = (short) (blk [c * 4] | (blk [c * 4 + 1] << 8)) ; idx [c] = blk [c * 4 + 2] ; if (idx [c] > 88) return false ; out [c] = (short) pred [c] ; }
	int pos = 4 * ch ; int s = 1 ;
	while (pos + 4 * ch <= blocksize && s + 8 <= spb + 7)
	{	for (int c = 0 ; c < ch ; c++)
			for (int k = 0 ; k < 4 ; k++)
			{	int b = blk [pos ++] ;
				for (int h = 0 ; h < 2 ; h++) { int n = h ? (b >> 4) & 15 : b & 15 ; int si = s + 2 * k + h ; int v = ima_step (pred [c], idx [c], n) ; if (si < spb) out [(size_t) si * ch + c] = (short) v ; }
			}
		s += 8 ;
	}
	return true ;
}
// AIFF ima4: per channel 34-byte packet: 2-byte header (9-bit predictor, 7-bit index), 32 data bytes, low nibble first
static bool ref_ima_aiff (const uint8_t *pk, int ch, std::vector<short> &out)
{	out.assign ((size_t) 64 * ch, 0) ;
	for (int c = 0 ; c < ch ; c++)
	{	const uint8_t *b = pk + 34 * c ; int pred = (short) ((b [0] << 8) | (b [1] & 0x80)) ; int idx = b [1] & 0x7f ; if (idx > 88) return false ;
		for (int k = 0 ; k < 32 ; k++) for (int h = 0 ; h < 2 ; h++) { int n = h ? (b [2 + k] >> 4) & 15 : b [2 + k] & 15 ; out [(size_t) (2 * k + h) * ch + c] = (short) ima_step (pred, idx, n) ; }
	}
	return true ;
}
static const int ms_adapt [16] = { 230, 230, 230, 230, 307, 409, 512, 614, 768, 614, 512, 409, 307, 230, 230, 230 } ;
static const int ms_c1 [7] = { 256, 512, 0, 192, 240, 460, 392 } ; static const int ms_c2 [7] = { 0, -256, 0, 64, 0, -208, -232 } ;
// returns false when the block leaves the domain the format defines (predictor index >= 7, or a 16-bit delta overflow)
static bool ref_ms (const uint8_t *blk, int blocksize, int ch, int spb, std::vector<short> &out)
{	out.assign ((size_t) spb * ch, 0) ; int bp [2], delta [2], s1 [2], s2 [2] ; int pos ;
	if (ch == 1) { bp [0] = blk [0] ; delta [0] = (short) (blk [1] | (blk [2] << 8)) ; s1 [0] = (short) (blk [3] | (blk [4] << 8)) ; s2 [0] = (short) (blk [5] | (blk [6] << 8)) ; pos = 7 ; }
	else { bp [0] = blk [0] ; bp [1] = blk [1] ; delta [0] = (short) (blk [2] | (blk [3] << 8)) ; delta [1] = (short) (blk [4] | (blk [5] << 8)) ;
		s1 [0] = (short) (blk [6] | (blk [7] << 8)) ; s1 [1] = (short) (blk [8] | (blk [9] << 8)) ; s2 [0] = (short) (blk [10] | (blk [11] << 8)) ; s2 [1] = (short) (blk [12] | (blk [13] << 8)) ; pos = 14 ; }
	for (int c = 0 ; c < ch ; c++) { if (bp [c] >= 7 || delta [c] < 0) return false ; out [c] = (short) s2 [c] ; out [(size_t) ch + c] = (short) s1 [c] ; }
	int k = 2 * ch ;
	while (pos < blocksize && k < spb * ch)
	{	int b = blk [pos ++] ;
		for (int h = 0 ; h < 2 && k < spb * ch ; h++, k++)
		{	int c = ch > 1 ? k % 2 : 0 ; int n = h ? b & 15 : (b >> 4) & 15 ;
			int idelta = delta [c] ; long nd = ((long) ms_adapt [n] * idelta) >> 8 ; if (nd < 16) nd = 16 ; if (nd > 32767) return false ; delta [c] = (int) nd ;
			int sn = n & 8 ? n - 16 : n ;
			int predict = (s1 [c] * ms_c1 [bp [c]] + s2 [c] * ms_c2 [bp [c]]) >> 8 ;	// arithmetic shift (floor), as in the SoX/libsndfile family of the algorithm
			long cur = (long) sn * idelta + predict ; if (cur > 32767) cur = 32767 ; if (cur < -32768) cur = -32768 ;
			out [k] = (short) cur ; s2 [c] = s1 [c] ; s1 [c] = (int) cur ;
		}
	}
	return true ;
}

// template file written by the library, data section located by an independent walker
struct Tmpl { std::vector<uint8_t> bytes ; size_t data_off = 0 ; size_t data_len = 0 ; int blocksize = 0 ; int spb = 0 ; } ;
static bool make_template (int format, int ch, int rate, int nblocks, Tmpl &t)
{	MemFile m ; OpenSpec s ; s.format = format ; s.ch = ch ; s.rate = rate ;
	int spb = nominal_block (format, ch, rate) ;
	std::vector<long long> part { (long long) spb * nblocks } ;
	if (!write_whole (m, s, T_SHORT, (long long) spb * nblocks, ST_NOISE, 1, part).empty ()) return false ;
	t.bytes = m.data ; t.spb = spb ;
	for (auto &c : walk_iff (m.data))
	{	if (c.id == "data") { t.data_off = c.data ; t.data_len = (size_t) c.size ; }
		if (c.id == "SSND") { t.data_off = c.data + 8 ; t.data_len = (size_t) c.size - 8 ; }
	}
	if (!t.data_off || t.data_len % nblocks) return false ;
	t.blocksize = (int) (t.data_len / nblocks) ;
	return true ;
}

static Result run_adpcm (const Case &c)
{	Result r ; r.nontrivial = true ;
	std::string codec = c.gets ("codec") ; int ch = (int) c.geti ("ch") ; int rate = (int) c.geti ("rate") ; int nblocks = (int) c.geti ("blocks") ;
	int format = codec == "ima_wav" ? (SF_FORMAT_WAV | SF_FORMAT_IMA_ADPCM) : codec == "ms_wav" ? (SF_FORMAT_WAV | SF_FORMAT_MS_ADPCM) : codec == "ima_w64" ? (SF_FORMAT_W64 | SF_FORMAT_IMA_ADPCM) :
		codec == "ms_w64" ? (SF_FORMAT_W64 | SF_FORMAT_MS_ADPCM) : (SF_FORMAT_AIFF | SF_FORMAT_IMA_ADPCM) ;
	Tmpl t ;
	if ((format & SF_FORMAT_TYPEMASK) == SF_FORMAT_W64)
	{	// W64: chunk headers are 24 bytes; locate "data" GUID by scanning
		MemFile m ; OpenSpec s ; s.format = format ; s.ch = ch ; s.rate = rate ; int spb = nominal_block (format, ch, rate) ;
		std::vector<long long> part { (long long) spb * nblocks } ;
		if (!write_whole (m, s, T_SHORT, (long long) spb * nblocks, ST_NOISE, 1, part).empty ()) return failr ("template_failed", codec) ;
		t.bytes = m.data ; t.spb = spb ; size_t off = 40 ;
		while (off + 24 <= m.data.size ()) { uint64_t sz = rd_le64 (m.data.data () + off + 16) ; if (memcmp (m.data.data () + off, "data", 4) == 0) { t.data_off = off + 24 ; t.data_len = (size_t) sz - 24 ; break ; } if (sz < 24) break ; off += (size_t) ((sz + 7) & ~7ull) ; }
		if (!t.data_off || t.data_len % nblocks) return failr ("template_failed", codec + " w64 walker") ;
		t.blocksize = (int) (t.data_len / nblocks) ;
	}
	else if (!make_template (format, ch, rate, nblocks, t)) return failr ("template_failed", codec) ;
	// fill the data section from the generated bytes
	std::vector<uint8_t> gen = unhex (c.gets ("bytes")) ; int style = (int) c.geti ("fill") ;
	Rng rr ((uint64_t) c.geti ("seed")) ;
	for (size_t i = 0 ; i < t.data_len ; i++)
	{	uint8_t v ;
		switch (style) { case 0 : v = (uint8_t) rr.next () ; break ; case 1 : v = 0x00 ; break ; case 2 : v = 0xff ; break ; case 3 : v = 0x77 ; break ; case 4 : v = 0x88 ; break ; default : v = (uint8_t) (rr.below (4) ? 0x77 : rr.next ()) ; break ; }
		t.bytes [t.data_off + i] = v ;
	}
	// explicit header bytes at the start of every block (so that headers are legal or deliberately illegal)
	bool legal = c.geti ("legal") != 0 ; bool aiff = (format & SF_FORMAT_TYPEMASK) == SF_FORMAT_AIFF ; bool ms = (format & SF_FORMAT_SUBMASK) == SF_FORMAT_MS_ADPCM ;
	for (int b = 0 ; b < nblocks ; b++)
	{	uint8_t *blk = t.bytes.data () + t.data_off + (size_t) b * t.blocksize ;
		size_t go = (size_t) b * 16 ;
		auto G = [&] (size_t i) -> uint8_t { return gen.empty () ? (uint8_t) rr.next () : gen [(go + i) % gen.size ()] ; } ;
		if (aiff) for (int cch = 0 ; cch < ch ; cch++) { blk [34 * cch] = G (cch * 2) ; uint8_t x = G (cch * 2 + 1) ; blk [34 * cch + 1] = legal ? (uint8_t) ((x & 0x80) | ((x & 0x7f) % 89)) : x ; }
		else if (!ms) for (int cch = 0 ; cch < ch ; cch++) { blk [4 * cch] = G (cch * 4) ; blk [4 * cch + 1] = G (cch * 4 + 1) ; uint8_t x = G (cch * 4 + 2) ; blk [4 * cch + 2] = legal ? x % 89 : x ; blk [4 * cch + 3] = 0 ; }
		else
		{	for (int cch = 0 ; cch < ch ; cch++) { uint8_t x = G (cch) ; blk [cch] = legal ? x % 7 : x ; }
			for (int cch = 0 ; cch < ch ; cch++) { int o = ch + 2 * cch ; blk [o] = G (4 + cch * 2) ; uint8_t hi = G (5 + cch * 2) ; blk [o + 1] = legal ? (hi & 0x03) : hi ; if (legal && blk [o] < 16 && blk [o + 1] == 0) blk [o] = 16 ; }
			for (int i = 3 * ch ; i < 7 * ch ; i++) blk [i] = G (8 + (size_t) i) ;
		}
	}
	// decode through the API
	MemFile rd ; rd.data = t.bytes ; SF_INFO ri ; memset (&ri, 0, sizeof (ri)) ;
	SNDFILE *f = open_mem (rd, SFM_READ, &ri) ;
	if (!f) return failr ("adpcm_open_failed", sf_strerror (nullptr)) ;
	std::vector<short> got ((size_t) t.spb * nblocks * ch + 16, 0) ;
	sf_count_t n = sf_readf_short (f, got.data (), (sf_count_t) t.spb * nblocks) ; sf_close (f) ;
	if (n != (sf_count_t) t.spb * nblocks) return failr ("adpcm_read_count", std::to_string ((long long) n) + " of " + std::to_string ((long long) t.spb * nblocks)) ;
	bool defined = true ;
	for (int b = 0 ; b < nblocks && defined ; b++)
	{	const uint8_t *blk = t.bytes.data () + t.data_off + (size_t) b * t.blocksize ; std::vector<short> ref ;
		bool ok = aiff ? ref_ima_aiff (blk, ch, ref) : ms ? ref_ms (blk, t.blocksize, ch, t.spb, ref) : ref_ima_wav (blk, t.blocksize, ch, t.spb, ref) ;
		if (!ok) { defined = false ; r.classes.push_back ("adpcm:undefined_header_only_memory_safety") ; break ; }
		const short *g = got.data () + (size_t) b * t.spb * ch ;
		for (size_t i = 0 ; i < (size_t) t.spb * ch ; i++)
			if (g [i] != ref [i])
				return failr ("adpcm_decode_ne_reference", codec + " ch=" + std::to_string (ch) + " blocksize=" + std::to_string (t.blocksize) + " block " + std::to_string (b) + " item " + std::to_string (i) + " library " + std::to_string (g [i]) + " reference " + std::to_string (ref [i])) ;
	}
	r.classes.push_back ("adpcm:" + codec) ; r.classes.push_back ("adpcm_blocksize:" + std::to_string (t.blocksize)) ; r.classes.push_back (std::string ("adpcm_legal:") + (legal ? "1" : "0")) ;
	r.dhash = fnv_str (c.str ()) ;
	return r ;
}

#include <rapidcheck.h>
static Case gen_adpcm ()
{	Case c ; c.set ("task", "adpcm") ;
	c.set ("codec", *rc::gen::element<std::string> ("ima_wav", "ms_wav", "ima_aiff", "ima_w64", "ms_w64")) ;
	c.seti ("ch", *rc::gen::element (1, 2)) ;
	c.seti ("rate", *rc::gen::element (8000, 11025, 16000, 22050, 32000, 44100, 48000, 96000)) ;	// selects the writer's block size 256/512/1024/2048
	c.seti ("blocks", *rc::gen::element (1, 2, 3)) ;
	c.seti ("fill", *rc::gen::element (0, 0, 0, 1, 2, 3, 4, 5)) ;
	c.seti ("legal", *rc::gen::element (1, 1, 1, 0)) ;
	c.seti ("seed", (long long) *rc::gen::resize (1000, rc::gen::inRange<uint64_t> (0, 1ull << 40))) ;
	auto bytes = *rc::gen::resize (48, rc::gen::container<std::vector<uint8_t>> (rc::gen::arbitrary<uint8_t> ())) ;
	// adversarial header material: extreme predictors, saturated step indices
	if (!bytes.empty () && *rc::gen::element (0, 1)) for (auto &b : bytes) { int k = *rc::gen::element (0, 1, 2, 3, 4) ; b = k == 0 ? 0x00 : k == 1 ? 0xff : k == 2 ? 0x7f : k == 3 ? 0x80 : b ; }
	c.set ("bytes", hex (bytes.data (), bytes.size ())) ;
	return c ;
}

static Result run_case (const Case &c)
{	std::string task = c.gets ("task") ;
	if (task == "adpcm") return run_adpcm (c) ;
	// enumeration tasks are re-run as a whole in replay mode
	g_failed = false ; ctx.have_failure = false ;
	if (task == "g711") task_g711 (c.gets ("law") == "ulaw" ? SF_FORMAT_ULAW : SF_FORMAT_ALAW) ;
	else if (task == "ieee_float") task_float_exp ((int) c.geti ("exp"), false) ;
	else if (task == "ieee_double") task_double_exp ((int) c.geti ("exp"), 4096) ;
	else if (task == "endian") task_endian () ;
	if (ctx.have_failure) return ctx.failing_res ;
	return Result () ;
}

int main (int argc, char **argv)
{	init_io () ;
	ctx.property = "C20" ;
	ctx.parse (argc, argv) ;
	scratch_dir () ;
	if (!ctx.replay.empty ()) { int rc = replay_main (ctx, run_case) ; rm_scratch () ; return rc ; }
	long long worker = ctx.opti ("worker", 0), workers = ctx.opti ("workers", 1) ;
	long ti = 0 ;
	auto mine = [&] () { return (ti ++ % workers) == worker ; } ;
	if (mine ()) task_g711 (SF_FORMAT_ULAW) ;
	if (mine ()) task_g711 (SF_FORMAT_ALAW) ;
	if (mine ()) task_endian () ;
	for (int e = 1 ; e <= 254 && !g_failed ; e++) if (mine ()) task_float_exp (e, ctx.thorough) ;
	size_t per = ctx.thorough ? 1u << 19 : 4096 ;
	for (int e = 1 ; e <= 2046 && !g_failed ; e++) if (mine ()) { task_double_exp (e, per) ; ctx.flush () ; }
	ctx.ev.samples.push_back ("task=g711 law=ulaw (all 256 codes x 4 read types, all 65536 inputs x 4 write types)") ;
	ctx.ev.samples.push_back ("task=ieee_float exp=127 (mantissa edge set + 32768 stratified mantissas, both signs, both byte orders, read and write)") ;
	ctx.flush (true) ;
	int rc = 0 ;
	if (!g_failed) rc = rc_main (ctx, gen_adpcm, run_case, nullptr) ;
	rm_scratch () ;
	if (g_failed) { fprintf (outf (), "FAIL %s kind=%s detail=%s\n", ctx.path ("failing.case").c_str (), ctx.failing_res.kind.c_str (), ctx.failing_res.detail.c_str ()) ; return 1 ; }
	return rc ;
}
