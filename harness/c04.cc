// C04 - a closed file describes exactly what was written into it.
// generator: catalogue entry x channels (up to the container maximum) x sample rate x N x partition over
//            calls *and sample types* x the frames field passed at open x route;
// oracle: re-open reports channels / container / codec (/ byte order where recorded) / rate (where the field can
//         hold it) and N <= F < N + B (+ one pad frame for odd 1-byte totals); reading delivers exactly F frames.
#include "vf_file.hpp"
using namespace vf ;

static Ctx ctx ;

static Case gen_case ()
{	const FmtEntry *e = pickEntry (all_entries ()) ;
	Case c ;
	c.set ("fmt", format_str (e->format)) ;
	c.seti ("format", e->format) ;
	int ch = pickChannels (e, 6) ;
	c.seti ("ch", ch) ;
	int rate = *rateGen () ;
	c.seti ("rate", rate) ;
	long long maxN = (ctx.thorough ? 131072 : 16384) / ch ; if (maxN < 8) maxN = 8 ;
	c.seti ("n", *lengthGen (nominal_block (e->format, ch, rate), maxN)) ;
	c.set ("style", style_name [*rangeOf<int> (0, ST_COUNT - 1)]) ;
	c.seti ("seed", (long long) *seedGen ()) ;
	c.seti ("split", *rangeOf<int> (0, 2)) ;		// 0 single call, 1 partition one type, 2 partition mixed types
	c.set ("t", stype_name [*rangeOf<int> (0, 3)]) ;
	c.set ("rt", stype_name [*rangeOf<int> (0, 3)]) ;
	c.seti ("ff", *rc::gen::element<long long> (0, -2, 1000, -1, 0x7fffffffffffffffll)) ;	// frames field: 0, N(-2), N+1000, -1, max
	bool path = !e->vio_ok || *rangeOf<int> (0, 9) == 0 ;
	c.set ("route", path ? "path" : "mem") ;
	return c ;
}

static Case sig_of (const Case &c)
{	int format = (int) c.geti ("format") ;
	Case s ;
	s.set ("container", major_name (format)) ;
	const Codec *cd = codec_of (format) ; s.set ("codec", cd ? cd->name : "?") ;
	s.set ("endian", endian_name (format)) ;
	long long rate = c.geti ("rate") ;
	s.set ("rateclass", rate < 65536 ? (rate < 4000 ? "lt4000" : "lt65536") : rate % 65536 == 0 ? "mult65536" : rate >= (1ll << 30) ? "ge2p30" : "ge65536") ;
	return s ;
}

static Result run_case (const Case &c)
{	Result r ;
	int format = (int) c.geti ("format") ; int ch = (int) c.geti ("ch") ; int rate = (int) c.geti ("rate") ;
	long long N = c.geti ("n") ; int style = style_from (c.gets ("style")) ; uint64_t seed = (uint64_t) c.geti ("seed") ;
	int split = (int) c.geti ("split") ; int t0 = stype_from (c.gets ("t")) ; int rt = stype_from (c.gets ("rt")) ;
	long long ff = c.geti ("ff") ; if (ff == -2) ff = N ; else if (ff == 1000) ff = N + 1000 ;
	bool path = c.gets ("route") == "path" ;
	int maj = format & SF_FORMAT_TYPEMASK, sub = format & SF_FORMAT_SUBMASK ;
	const Codec *cd = codec_of (format) ;
	r.sig = sig_of (c) ;
	std::string nclass = N == 0 ? "n0" : N < 16 ? "n<16" : N < 4096 ? "n<4096" : "n>=4096" ;
	r.sig.set ("nclass", nclass) ;
	if (cd->granular) r.sig.seti ("databytes", N * ch * cd->bytes) ;
	r.nontrivial = N >= 1 ;
	r.dhash = fnv_str (c.gets ("fmt") + "|" + std::to_string (ch) + "|" + r.sig.gets ("rateclass") + "|" + std::to_string (N) + "|" + std::to_string (split) + "|" + c.gets ("ff") + "|" + c.gets ("route")) ;
	r.classes = { std::string ("container:") + major_name (format), std::string ("codec:") + cd->name, "nclass:" + nclass,
		"rate:" + r.sig.gets ("rateclass"), "split:" + std::to_string (split), "ff:" + c.gets ("ff"), "route:" + c.gets ("route"),
		std::string ("ch:") + (ch == 1 ? "1" : ch == 2 ? "2" : ch <= 8 ? "3-8" : ">8") } ;
	auto fail = [&] (const char *kind, const std::string &d) { Result x = r ; x.ok = false ; x.kind = kind ; x.detail = d ; return x ; } ;

	SF_INFO wi ; memset (&wi, 0, sizeof (wi)) ;
	wi.format = format ; wi.channels = ch ; wi.samplerate = rate ; wi.frames = ff ;
	MemFile mem ; std::string fname ;
	SNDFILE *f ;
	if (path)
	{	fname = scratch_dir () + "/c04_" + std::to_string ((long) getpid ()) + ".dat" ; unlink (fname.c_str ()) ;
		f = sf_open (fname.c_str (), SFM_WRITE, &wi) ;
	}
	else f = open_mem (mem, SFM_WRITE, &wi) ;
	if (!f) return fail ("open_write_failed", sf_strerror (nullptr)) ;
	// writes: partition over calls and (split == 2) over sample types
	std::vector<long long> part ;
	Rng pr (seed ^ 0xC04) ;
	if (split && N > 0) part = make_partition (pr, N, nominal_block (format, ch, rate), ch, 2) ; else if (N > 0) part.push_back (N) ;
	long long done = 0 ;
	for (long long p : part)
	{	long long fr = p < 0 ? -p : p ;
		int t = split == 2 ? (int) pr.below (4) : t0 ; int ts = stype_size (t) ;
		Block b ((size_t) fr * ch * ts) ; fill_any (b.p, t, (size_t) fr * ch, style, seed + (uint64_t) done) ;
		sf_count_t w = p < 0 ? sf_write_t (f, t, b.p, fr * ch) : sf_writef_t (f, t, b.p, fr) ;
		sf_count_t want = p < 0 ? fr * ch : fr ;
		if (w != want) { std::string d = "write returned " + std::to_string ((long long) w) + " want " + std::to_string ((long long) want) + " err=" + sf_err_text (f) ; sf_close (f) ; if (path) unlink (fname.c_str ()) ; return fail ("short_write", d) ; }
		done += fr ;
	}
	int cr = sf_close (f) ;
	if (cr != 0) { if (path) unlink (fname.c_str ()) ; return fail ("close_failed", std::to_string (cr)) ; }
	std::vector<uint8_t> bytes ;
	if (path) read_file (fname, bytes) ; else bytes = mem.data ;
	// SF_ENDIAN_CPU means "the byte order of this machine": the file must be, byte for byte, the one the explicit option for
	// the host's order produces (containers that report their default order as FILE would otherwise hide a wrong choice)
	if (!path && (format & SF_FORMAT_ENDMASK) == SF_ENDIAN_CPU)
	{	const uint16_t one = 1 ; int host = *(const uint8_t *) &one ? SF_ENDIAN_LITTLE : SF_ENDIAN_BIG ;
		SF_INFO ti ; memset (&ti, 0, sizeof (ti)) ; ti.format = (format & ~SF_FORMAT_ENDMASK) | host ; ti.channels = ch ; ti.samplerate = rate ; ti.frames = ff ;
		MemFile tm ; SNDFILE *tf = sf_format_check (&ti) ? open_mem (tm, SFM_WRITE, &ti) : nullptr ;
		if (tf)
		{	Rng tr (seed ^ 0xC04) ; std::vector<long long> tp ;
			if (split && N > 0) tp = make_partition (tr, N, nominal_block (format, ch, rate), ch, 2) ; else if (N > 0) tp.push_back (N) ;
			long long td = 0 ;
			for (long long p : tp)
			{	long long fr = p < 0 ? -p : p ; int t = split == 2 ? (int) tr.below (4) : t0 ; int ts = stype_size (t) ;
				Block b ((size_t) fr * ch * ts) ; fill_any (b.p, t, (size_t) fr * ch, style, seed + (uint64_t) td) ;
				if (p < 0) sf_write_t (tf, t, b.p, fr * ch) ; else sf_writef_t (tf, t, b.p, fr) ;
				td += fr ;
			}
			sf_close (tf) ;
			if (tm.data != bytes)
			{	size_t i = 0 ; while (i < tm.data.size () && i < bytes.size () && tm.data [i] == bytes [i]) i ++ ;
				return fail ("cpu_endian_ne_host_endian", "file written with SF_ENDIAN_CPU (" + std::to_string (bytes.size ()) + " bytes) differs from the one written with the host's order named explicitly (" + std::to_string (tm.data.size ()) + " bytes), first at byte " + std::to_string (i)) ;
			}
			r.classes.push_back ("cpu_endian_twin:compared") ;
		}
	}
	// re-open
	SF_INFO ri ; memset (&ri, 0, sizeof (ri)) ;
	if (maj == SF_FORMAT_RAW) { ri.format = format ; ri.channels = ch ; ri.samplerate = rate ; }
	SNDFILE *g = path ? sf_open (fname.c_str (), SFM_READ, &ri) : open_mem (mem, SFM_READ, &ri) ;
	// SD2 keeps its parameters in a resource fork and the data fork is headerless: if the audio bytes themselves look like
	// another container (e.g. start with 01 04 = MPC2K) the library's format detection takes that (listed finding)
	if ((format & SF_FORMAT_TYPEMASK) == SF_FORMAT_SD2 && path)
	{	std::vector<uint8_t> fork ; read_file (fname, fork) ; MemFile probe ; probe.data = fork ; SF_INFO pi ; memset (&pi, 0, sizeof (pi)) ;
		SNDFILE *pf = open_mem (probe, SFM_READ, &pi) ; if (pf) { sf_close (pf) ; r.sig.set ("sd2_datafork_looks_like", major_name (pi.format)) ; }
	}
	if (!g) { if (path) unlink (fname.c_str ()) ; return fail ("reopen_failed", sf_strerror (nullptr)) ; }
	Result res = r ;
	auto bad = [&] (const char *kind, const std::string &d) { if (res.ok) { res.ok = false ; res.kind = kind ; res.detail = d ; } } ;
	if (ri.channels != ch) bad ("channels_changed", std::to_string (ri.channels) + " != " + std::to_string (ch)) ;
	if ((ri.format & SF_FORMAT_TYPEMASK) != maj) bad ("container_changed", format_str (ri.format)) ;
	if ((ri.format & SF_FORMAT_SUBMASK) != sub) bad ("codec_changed", format_str (ri.format)) ;
	if (endian_recorded (format))
	{	int req = format & SF_FORMAT_ENDMASK ; if (req == SF_ENDIAN_CPU) req = SF_ENDIAN_LITTLE ;
		int got = ri.format & SF_FORMAT_ENDMASK ;
		if (req != SF_ENDIAN_FILE && got != SF_ENDIAN_FILE && got != req) bad ("endian_changed", format_str (ri.format)) ;
	}
	if (maj != SF_FORMAT_RAW && rate_representable (format, ch, rate) && ri.samplerate != rate)
		bad ("rate_changed", std::to_string (ri.samplerate) + " != " + std::to_string (rate)) ;
	if (maj == SF_FORMAT_SDS && !rate_representable (format, ch, rate) && rate >= 477 && rate <= 1000000000)
	{	// SDS stores the sample period in ns in 21 bits: for a rate the field cannot hold exactly the re-opened rate must still be the one of a
		// period next to the true one (either rounding of either division is accepted) - not one with a header bit lost
		long long lo = 1000000000ll / rate, hi = lo + 1 ; bool ok = false ;
		for (long long pp : { lo, hi }) if (pp >= 1 && pp < (1 << 21)) { long long q = 1000000000ll / pp ; if (ri.samplerate == q || ri.samplerate == q + 1) ok = true ; }
		if (!ok) bad ("rate_changed", "SDS rate " + std::to_string (rate) + " (period " + std::to_string (lo) + " ns) re-opened as " + std::to_string (ri.samplerate)) ;
		r.classes.push_back ("sds_rate:inexact_checked") ;
	}
	if (ri.samplerate < 1) bad ("rate_insane", std::to_string (ri.samplerate)) ;
	int B = oracle_block (format, ch, rate, bytes) ;
	if (B <= 0) bad ("catalogue_error", "block length not found in the produced file") ;
	long long F = ri.frames ;
	long long pad = (cd->granular && cd->bytes * ch == 1 && (N & 1)) ? 1 : 0 ;
	if (B > 0 && !(F >= N && (F < N + B || F <= N + pad)))
		bad (F < N ? "frames_short" : "frames_long", "F=" + std::to_string (F) + " N=" + std::to_string (N) + " B=" + std::to_string (B)) ;
	// reading delivers exactly F frames, then 0
	if (res.ok && F >= 0 && F < (1ll << 40))
	{	int ts = stype_size (rt) ; long long chunk = 1000 ; long long total = 0 ;
		Block b ((size_t) chunk * ch * ts) ;
		for ( ; ; )
		{	sf_count_t got = sf_readf_t (g, rt, b.p, chunk) ;
			if (got < 0 || got > chunk) { bad ("read_count_insane", std::to_string ((long long) got)) ; break ; }
			if (got == 0) break ;
			total += got ;
			if (total > F + chunk) break ;
		}
		if (res.ok && total != F) bad ("delivered_ne_frames", "delivered " + std::to_string (total) + " frames, header says " + std::to_string (F) + " (N=" + std::to_string (N) + ")") ;
		if (res.ok)
		{	sf_count_t again = sf_readf_t (g, rt, b.p, 1) ;
			if (again != 0) bad ("read_after_eof", std::to_string ((long long) again)) ;
		}
	}
	sf_close (g) ;
	if (path) unlink (fname.c_str ()) ;
	return res ;
}

int main (int argc, char **argv)
{	init_io () ;
	ctx.property = "C04" ;
	ctx.parse (argc, argv) ;
	scratch_dir () ;
	int rc = rc_main (ctx, gen_case, run_case, sig_of) ;
	rm_scratch () ;
	return rc ;
}
