// C09 - invalid calls fail cleanly; valid calls leave no error.
// case: handle mode {read, write, rdwr} x representative format x history (<= 25 calls) mixing valid calls with each
//       class of invalid call; plus failing sf_open variants; plus the complete sf_error_number table.
// oracle: tier A invalid calls (named by the statement) return the documented failure value AND record a non-zero error
//         with a real message (where the documentation of that call puts it) AND leave the state digest unchanged;
//         tier B misuse: failure value + unchanged digest; every successful call leaves sf_error == 0;
//         failed opens return NULL, set the global error, leave /proc/self/fd as it was and leak nothing.
#include "vf_readhist.hpp"
extern "C" int __lsan_do_recoverable_leak_check (void) ;
using namespace vf ;

static Ctx ctx ;

struct Rep { int format ; int ch ; bool rdwr ; bool strings ; bool chunks ; const char *name ; } ;
static const Rep reps [] = {
	{ SF_FORMAT_WAV | SF_FORMAT_PCM_16, 2, true, true, true, "WAV16" }, { SF_FORMAT_WAV | SF_FORMAT_FLOAT, 1, true, true, true, "WAVF" },
	{ SF_FORMAT_AIFF | SF_FORMAT_PCM_24, 3, true, true, true, "AIFF24" }, { SF_FORMAT_AU | SF_FORMAT_ULAW, 2, true, false, false, "AUULAW" },
	{ SF_FORMAT_CAF | SF_FORMAT_ALAC_16, 2, false, true, true, "CAFALAC" }, { SF_FORMAT_WAV | SF_FORMAT_IMA_ADPCM, 2, false, true, true, "WAVIMA" },
	{ SF_FORMAT_RAW | SF_FORMAT_VOX_ADPCM, 1, false, false, false, "RAWVOX" }, { SF_FORMAT_SDS | SF_FORMAT_PCM_16, 1, false, false, false, "SDS16" },
	{ SF_FORMAT_XI | SF_FORMAT_DPCM_16, 1, false, false, false, "XI16" }, { SF_FORMAT_W64 | SF_FORMAT_PCM_32, 2, true, false, false, "W64" },
	{ SF_FORMAT_MAT5 | SF_FORMAT_DOUBLE, 2, true, false, false, "MAT5" }, { SF_FORMAT_PAF | SF_FORMAT_PCM_24, 2, false, false, false, "PAF24" },
	// (second group, added when the thorough tier of C16 met a crash in aiff_ima_seek: one representative per remaining seek / codec wrapper)
	{ SF_FORMAT_AIFF | SF_FORMAT_IMA_ADPCM, 2, false, true, true, "AIFFIMA" }, { SF_FORMAT_WAV | SF_FORMAT_MS_ADPCM, 2, false, true, true, "WAVMS" },
	{ SF_FORMAT_WAV | SF_FORMAT_GSM610, 1, false, true, true, "WAVGSM" }, { SF_FORMAT_AU | SF_FORMAT_G721_32, 1, false, false, false, "AUG721" },
	{ SF_FORMAT_WAV | SF_FORMAT_NMS_ADPCM_24, 1, false, true, true, "WAVNMS" }, { SF_FORMAT_AIFF | SF_FORMAT_DWVW_16, 1, false, true, true, "AIFFDWVW" },
	{ SF_FORMAT_VOC | SF_FORMAT_PCM_16, 2, true, false, false, "VOC16" }, { SF_FORMAT_SVX | SF_FORMAT_PCM_16, 1, true, false, false, "SVX16" },
	{ SF_FORMAT_CAF | SF_FORMAT_ALAC_24, 3, false, true, true, "CAFALAC24" }, { SF_FORMAT_HTK | SF_FORMAT_PCM_16, 1, true, false, false, "HTK" } } ;
static const int NREP = sizeof (reps) / sizeof (reps [0]) ;

static uint64_t digest (SNDFILE *f, MemFile &mf)
{	uint64_t h = 1469598103934665603ull ;
	sf_count_t rd = 0, wr = 0 ; sf_verif_get_positions (f, &rd, &wr) ;
	h = fnv1a (&rd, sizeof (rd), h) ; h = fnv1a (&wr, sizeof (wr), h) ;
	int err = sf_error (f) ;
	SF_INFO ci ; memset (&ci, 0, sizeof (ci)) ; sf_command (f, SFC_GET_CURRENT_SF_INFO, &ci, sizeof (ci)) ; h = fnv1a (&ci, sizeof (ci), h) ;
	int v [3] = { sf_command (f, SFC_GET_NORM_FLOAT, nullptr, 0), sf_command (f, SFC_GET_NORM_DOUBLE, nullptr, 0), sf_command (f, SFC_GET_CLIPPING, nullptr, 0) } ;
	h = fnv1a (v, sizeof (v), h) ;
	for (int s = SF_STR_FIRST ; s <= SF_STR_LAST ; s++) { const char *p = sf_get_string (f, s) ; if (p) h = fnv1a (p, strlen (p) + 1, h) ; else h = fnv1a ("\xff", 1, h) ; }
	{	static SF_CUES cu ; memset (&cu, 0, sizeof (cu)) ; uint32_t n = 0 ; int r1 = sf_command (f, SFC_GET_CUE_COUNT, &n, sizeof (n)) ; int r2 = sf_command (f, SFC_GET_CUE, &cu, sizeof (cu)) ;
		h = fnv1a (&r1, 4, h) ; h = fnv1a (&n, 4, h) ; h = fnv1a (&r2, 4, h) ; if (r2) h = fnv1a (&cu, sizeof (cu), h) ;
		SF_INSTRUMENT in ; memset (&in, 0, sizeof (in)) ; int r3 = sf_command (f, SFC_GET_INSTRUMENT, &in, sizeof (in)) ; h = fnv1a (&r3, 4, h) ; if (r3) h = fnv1a (&in, sizeof (in), h) ;
	}
	h = fnv1a (mf.data.data (), mf.data.size (), h) ;
	(void) err ;
	return h ;
}
static bool real_message (const char *s) { return s && *s && strstr (s, "No error defined") == nullptr && strcmp (s, "No Error.") != 0 ; }

static std::set<int> open_fds ()
{	std::set<int> s ; DIR *d = opendir ("/proc/self/fd") ; if (!d) return s ; int self = dirfd (d) ;
	while (auto *e = readdir (d)) { if (e->d_name [0] == '.') continue ; int fd = atoi (e->d_name) ; if (fd != self) s.insert (fd) ; }
	closedir (d) ; return s ;
}

// ---- op generation
static std::string gen_op (int mode, bool valid_bias)
{	// classes: r/w valid, rx ry rn (misaligned / wrong mode / negative), s valid seeks, sb sm so, c valid commands, cu cn, t strings, k chunks, o opens
	static const char *valid [] = { "r", "r", "w", "w", "s", "s", "c", "t", "cv" } ;
	static const char *invalid [] = { "rx", "rn", "wx", "wn", "sb", "sm", "so", "sn", "cu", "cn", "tr", "tn", "tu", "te", "te", "kn", "kf", "o0", "o1", "o2", "o3", "o4", "o5", "o6", "o7", "o8", "o9", "oA", "oB", "oC", "rm", "wm", "wq", "rq", "wq", "rq", "oD", "oE", "oF", "oG", "oH", "oI", "oJ", "cq", "cq", "ci" } ;
	std::string s ;
	if (*rangeOf<int> (0, 9) < (valid_bias ? 6 : 4)) s = valid [*rangeOf<int> (0, 8)] ; else s = invalid [*rangeOf<int> (0, 45)] ;
	s += ":" ; s += "sifd" [*rangeOf<int> (0, 3)] ; s += *rangeOf<int> (0, 1) ? 'i' : 'f' ; s += std::to_string (*rc::gen::element (1, 2, 7, 64, 300)) ;
	(void) mode ;
	return s ;
}

static Case gen_case ()
{	Case c ;
	int ri = *rangeOf<int> (0, NREP - 1) ; c.seti ("rep", ri) ; c.set ("fmt", reps [ri].name) ;
	std::vector<int> modes = { SFM_READ, SFM_WRITE } ; if (reps [ri].rdwr) modes.push_back (SFM_RDWR) ;
	int mode = *rc::gen::elementOf (modes) ; c.set ("mode", mode == SFM_READ ? "read" : mode == SFM_WRITE ? "write" : "rdwr") ;
	c.seti ("seed", (long long) *seedGen ()) ;
	int n = *rangeOf<int> (1, 25) ; std::string s ;
	for (int i = 0 ; i < n ; i++) { if (i) s += ' ' ; s += gen_op (mode, true) ; }
	c.set ("ops", s) ;
	return c ;
}

static Case sig_of (const Case &c) { Case s ; s.set ("fmtname", c.gets ("fmt")) ; return s ; }

static int bad_open (int k, std::string &what)
{	// returns 0 when the failing open behaved, else writes a description
	sf_count_t dummy = 0 ; (void) dummy ;
	std::string path = scratch_dir () + "/c09_open.dat" ;
	SF_INFO i ; memset (&i, 0, sizeof (i)) ; SNDFILE *f = nullptr ;
	MemFile mf ; SF_VIRTUAL_IO bad = *memvio () ;
	// a successful open first: the failing one must set the global error itself, not inherit it from an earlier failure
	{	MemFile ok ; SF_INFO wi ; memset (&wi, 0, sizeof (wi)) ; wi.format = SF_FORMAT_AU | SF_FORMAT_PCM_16 ; wi.channels = 1 ; wi.samplerate = 8000 ; SNDFILE *g = open_mem (ok, SFM_WRITE, &wi) ; if (g) sf_close (g) ; }
	bool global_clear = sf_error (nullptr) == 0 ;
	std::string longpath = scratch_dir () + "/" + std::string (1100 + 37 * (size_t) (k % 7), 'x') + ".wav" ;
	switch (k)
	{	case 10 : f = sf_open (longpath.c_str (), SFM_READ, &i) ; break ;
		case 11 : i.format = SF_FORMAT_WAV | SF_FORMAT_PCM_16 ; i.channels = 1 ; i.samplerate = 8000 ; f = sf_open (longpath.c_str (), SFM_WRITE, &i) ; break ;
		case 12 : i.format = SF_FORMAT_WAV | SF_FORMAT_PCM_16 ; i.channels = 1 ; i.samplerate = 8000 ; f = sf_open (longpath.c_str (), SFM_RDWR, &i) ; break ;	case 0 : i.format = SF_FORMAT_WAV | SF_FORMAT_PCM_16 ; i.channels = 1 ; i.samplerate = 8000 ; f = sf_open (path.c_str (), 0x77, &i) ; break ;
		case 1 : f = sf_open (path.c_str (), SFM_READ, nullptr) ; break ;
		case 2 : i.format = SF_FORMAT_PCM_16 ; i.channels = 1 ; i.samplerate = 8000 ; f = sf_open (path.c_str (), SFM_WRITE, &i) ; break ;
		case 3 : i.format = SF_FORMAT_WAV ; i.channels = 1 ; i.samplerate = 8000 ; f = sf_open (path.c_str (), SFM_WRITE, &i) ; break ;
		case 4 : i.format = 0x0FFF0000 | SF_FORMAT_PCM_16 ; i.channels = 1 ; i.samplerate = 8000 ; f = open_mem (mf, SFM_WRITE, &i) ; break ;
		case 5 : f = sf_open ((scratch_dir () + "/does_not_exist.wav").c_str (), SFM_READ, &i) ; break ;
		case 6 : { write_file (path, {}) ; f = sf_open (path.c_str (), SFM_READ, &i) ; break ; }
		case 7 : f = sf_open (scratch_dir ().c_str (), SFM_READ, &i) ; break ;
		case 8 : bad.read = nullptr ; f = sf_open_virtual (&bad, SFM_READ, &i, &mf) ; break ;
		// callbacks the mode needs are missing (sf_open_virtual checks each of them); 14 and 16 on a valid image that would otherwise open
		case 13 : bad.write = nullptr ; i.format = SF_FORMAT_AU | SF_FORMAT_PCM_16 ; i.channels = 1 ; i.samplerate = 8000 ; f = sf_open_virtual (&bad, SFM_WRITE, &i, &mf) ; break ;
		case 14 : case 16 :
		{	SF_INFO wi ; memset (&wi, 0, sizeof (wi)) ; wi.format = SF_FORMAT_WAV | SF_FORMAT_PCM_16 ; wi.channels = 1 ; wi.samplerate = 8000 ;
			SNDFILE *g = open_mem (mf, SFM_WRITE, &wi) ; if (g) { short z [8] = { 1, 2, 3, 4, 5, 6, 7, 8 } ; sf_write_short (g, z, 8) ; sf_close (g) ; } mf.pos = 0 ;
			if (k == 14) bad.write = nullptr ; else bad.read = nullptr ;
			f = sf_open_virtual (&bad, SFM_RDWR, &i, &mf) ; break ;
		}
		case 15 : bad.get_filelen = nullptr ; f = sf_open_virtual (&bad, SFM_READ, &i, &mf) ; break ;
		case 17 : bad.seek = nullptr ; i.seekable = 1 ; f = sf_open_virtual (&bad, SFM_READ, &i, &mf) ; break ;
		// a system call fails on an open handle: the call fails, the handle records an error and sf_strerror (handle) has the text
		case 18 : case 19 :
		{	int fd = k == 18 ? open (path.c_str (), O_RDONLY | O_CREAT, 0600) : open ("/dev/full", O_WRONLY) ;
			unlink (path.c_str ()) ;
			if (fd < 0) return 0 ;
			i.format = SF_FORMAT_RAW | SF_FORMAT_PCM_16 ; i.channels = 1 ; i.samplerate = 8000 ;
			f = sf_open_fd (fd, SFM_WRITE, &i, SF_TRUE) ;
			if (!f)
			{	if (sf_error (nullptr) == 0 || !real_message (sf_strerror (nullptr))) { what = "sf_open_fd on an unwritable descriptor failed without a global error message" ; return 4 ; }
				close (fd) ; return 0 ;
			}
			std::vector<short> z (20000, 0x1234) ; sf_count_t w = sf_write_short (f, z.data (), (sf_count_t) z.size ()) ;
			int err = sf_error (f) ; std::string msg = sf_strerror (f) ; char es [256] = "" ; sf_error_str (f, es, sizeof (es)) ;
			sf_close (f) ;
			if (w == (sf_count_t) z.size ()) return 0 ;		// the descriptor took the data after all: nothing to check
			if (err == 0) { what = "write on an unwritable descriptor returned " + std::to_string ((long long) w) + " of 20000 and left sf_error at 0" ; return 5 ; }
			if (!real_message (msg.c_str ()) || !real_message (es)) { what = "after a failed system call sf_error is " + std::to_string (err) + " but sf_strerror (handle) is '" + msg + "', sf_error_str '" + es + "'" ; return 6 ; }
			return 0 ;
		}
		default : { mf.data.assign (300, 0x5a) ; memcpy (mf.data.data (), "RIFFxxxxWAVEfmt ", 16) ; f = open_mem (mf, SFM_READ, &i) ; break ; }
	}
	unlink (path.c_str ()) ;
	if (f) { sf_close (f) ; what = "invalid open variant " + std::to_string (k) + " succeeded" ; return 1 ; }
	(void) global_clear ;
	if (sf_error (nullptr) == 0) { what = "failed open variant " + std::to_string (k) + " left the global error at 0" ; return 2 ; }
	if (!real_message (sf_strerror (nullptr))) { what = "failed open variant " + std::to_string (k) + " has no message" ; return 3 ; }
	return 0 ;
}

static Result run_case (const Case &c)
{	Result r ; r.sig = sig_of (c) ;
	const Rep &rep = reps [c.geti ("rep")] ; std::string ms = c.gets ("mode") ; int mode = ms == "read" ? SFM_READ : ms == "write" ? SFM_WRITE : SFM_RDWR ;
	std::vector<std::string> ops = split (c.gets ("ops"), ' ') ; Rng rng ((uint64_t) c.geti ("seed")) ; int ch = rep.ch ;
	r.dhash = fnv_str (c.gets ("fmt") + "|" + ms + "|" + c.gets ("ops")) ;
	r.classes = { std::string ("fmt:") + rep.name, "mode:" + ms } ;
	auto fail = [&] (const char *kind, const std::string &d) { Result x = r ; x.ok = false ; x.kind = kind ; x.detail = d ; return x ; } ;
	std::set<int> fds0 = open_fds () ;
	// backing store
	MemFile mf ; OpenSpec s ; s.format = rep.format ; s.ch = ch ; s.rate = 8000 ;
	if (mode != SFM_WRITE)
	{	std::vector<long long> part { 600 } ; std::string e = write_whole (mf, s, T_SHORT, 600, ST_NOISE, 3, part) ; if (!e.empty ()) return fail ("populate_failed", e) ; }
	SNDFILE *f ;
	if (mode == SFM_WRITE) f = open_write_mem (mf, s) ;
	else { SF_INFO ri ; memset (&ri, 0, sizeof (ri)) ; if ((rep.format & SF_FORMAT_TYPEMASK) == SF_FORMAT_RAW) { ri.format = rep.format ; ri.channels = ch ; ri.samplerate = 8000 ; } f = open_mem (mf, mode, &ri) ; }
	if (!f) return fail ("open_failed", sf_strerror (nullptr)) ;
	bool vox = (rep.format & SF_FORMAT_SUBMASK) == SF_FORMAT_VOX_ADPCM ;
	// reference decode of the pre-populated file (valid reads are compared with it until the first valid write)
	MemFile pristine ; pristine.data = mf.data ; RefStreams ref ; bool clean = mode != SFM_WRITE ; long long rpos = 0 ;
	bool have_written = false ; int invalid_then_valid = 0 ; bool last_invalid = false ; int opno = 0 ;
	for (auto &opf : ops)
	{	opno ++ ; auto colon = opf.find (':') ; if (colon == std::string::npos) continue ;
		std::string op = opf.substr (0, colon) ; std::string arg = opf.substr (colon + 1) ; if (arg.size () < 3) continue ;
		int T = arg [0] == 's' ? T_SHORT : arg [0] == 'i' ? T_INT : arg [0] == 'f' ? T_FLOAT : T_DOUBLE ; bool items = arg [1] == 'i' ; long long k = atoll (arg.c_str () + 2) ;
		if (vox && (k * ch) % 2) k ++ ;	// listed VOX odd-count finding: excluded by construction
		std::string where = " (op " + std::to_string (opno) + " " + opf + ")" ;
		auto bail = [&] (const char *kind, const std::string &d) { sf_close (f) ; return fail (kind, d + where) ; } ;
		int ts = stype_size (T) ;
		uint64_t d0 = digest (f, mf) ;
		sf_count_t rd0, wr0 ; sf_verif_get_positions (f, &rd0, &wr0) ; SF_INFO ci0 ; memset (&ci0, 0, sizeof (ci0)) ; sf_command (f, SFC_GET_CURRENT_SF_INFO, &ci0, sizeof (ci0)) ;
		bool expect_invalid = false, tierA = false, checked = true ; bool failed_value = false ; int err_from_return = 0 ; bool err_in_return = false ;
		if (op == "r" || op == "rx" || op == "rn" || op == "rm")
		{	long long cnt = items ? k * ch : k ;
			if (op == "rx") { if (ch < 2) continue ; items = true ; cnt = k * ch + 1 ; }
			if (op == "rn") cnt = -cnt ;
			if (op == "rm" && mode != SFM_WRITE) continue ;
			Block b ((size_t) (cnt > 0 ? cnt : 1) * (items ? 1 : ch) * ts) ; memset (b.p, 0, b.n) ;
			sf_count_t got = items ? sf_read_t (f, T, b.p, cnt) : sf_readf_t (f, T, b.p, cnt) ;
			expect_invalid = mode == SFM_WRITE || op == "rx" || op == "rn" ; tierA = true ;
			failed_value = got == 0 ;
			if (!expect_invalid && (got < 0 || got > cnt)) return bail ("read_count_out_of_range", std::to_string ((long long) got)) ;
			if (!expect_invalid && clean)
			{	std::string e ; if (!build_ref (pristine, s, T, ref, e)) return bail ("reference_failed", e) ;
				long long F = std::min<long long> (ref.F, ref.delivered [T]) ; long long want = items ? cnt / ch : cnt ; long long expect = rpos >= F ? 0 : std::min (want, F - rpos) ; long long gfr = items ? got / ch : got ;
				if (gfr != expect) return bail ("valid_read_count", "returned " + std::to_string (gfr) + " frames, expected " + std::to_string (expect) + " at position " + std::to_string (rpos)) ;
				if (gfr > 0 && memcmp (b.p, ref.data [T].data () + (size_t) rpos * ch * ts, (size_t) gfr * ch * ts) != 0) return bail ("valid_read_data", "data differs from the sequential decode at position " + std::to_string (rpos)) ;
				rpos += gfr ;
			}
			r.classes.push_back (expect_invalid ? "invalid:read" : "valid:read") ;
		}
		else if (op == "wq" || op == "rq")
		{	// raw transfer whose byte count is not a whole number of frames: must be refused (SFE_BAD_WRITE_ALIGN / SFE_BAD_READ_ALIGN), block codecs included
			if (ch < 2) continue ; if (op == "wq" && mode == SFM_READ) continue ; if (op == "rq" && mode == SFM_WRITE) continue ;
			const Codec *cdq = codec_of (rep.format) ; long long bwq = (cdq && cdq->granular && cdq->bytes > 0 ? cdq->bytes : 1) * (long long) ch ; long long bytes = k * bwq + 1 + (long long) (rng.below ((uint64_t) (ch - 1))) ;
			if (bytes % bwq == 0) bytes ++ ;
			Block b ((size_t) bytes) ; memset (b.p, 0x11, b.n) ;
			sf_count_t got = op == "wq" ? sf_write_raw (f, b.p, bytes) : sf_read_raw (f, b.p, bytes) ;
			// at end of data a raw read returns 0 before it looks at the alignment: only the return value is asserted then
			expect_invalid = true ; tierA = !(op == "rq" && sf_error (f) == 0 && got == 0) ; failed_value = got == 0 ;
			r.classes.push_back (op == "wq" ? "invalid:raw_write_misaligned" : "invalid:raw_read_misaligned") ;
		}
		else if (op == "w" || op == "wx" || op == "wn" || op == "wm")
		{	long long cnt = items ? k * ch : k ;
			if (op == "wx") { if (ch < 2) continue ; items = true ; cnt = k * ch + 1 ; }
			if (op == "wn") cnt = -cnt ;
			if (op == "wm" && mode != SFM_READ) continue ;
			Block b ((size_t) (cnt > 0 ? cnt : 1) * (items ? 1 : ch) * ts) ; fill_any (b.p, T, b.n / ts, ST_NOISE, rng.next ()) ;
			sf_count_t got = items ? sf_write_t (f, T, b.p, cnt) : sf_writef_t (f, T, b.p, cnt) ;
			expect_invalid = mode == SFM_READ || op == "wx" || op == "wn" ; tierA = true ;
			failed_value = got == 0 ;
			if (!expect_invalid) { if (got != cnt) return bail ("valid_write_short", std::to_string ((long long) got) + " err=" + sf_err_text (f)) ; have_written = true ; clean = false ; }
			r.classes.push_back (expect_invalid ? "invalid:write" : "valid:write") ;
		}
		else if (op [0] == 's')
		{	sf_count_t frames = ci0.frames ; sf_count_t got ;
			if (op == "sb") { got = sf_seek (f, 0, 0x77) ; expect_invalid = true ; }
			else if (op == "sm") { if (mode == SFM_RDWR) continue ; got = sf_seek (f, 0, SEEK_SET | (mode == SFM_READ ? SFM_WRITE : SFM_READ)) ; expect_invalid = true ; }
			else if (op == "so")
			{	if (mode == SFM_READ) { got = sf_seek (f, frames + 1 + k, SEEK_SET) ; expect_invalid = true ; }
				else
				{	// beyond the end of a write handle: the API allows it, block codecs refuse it; a refusal must leave everything (file bytes included) as it was
					if (is_granular (rep.format)) continue ;
					got = sf_seek (f, ci0.frames + 1000 + k, SEEK_SET) ;
					if (got == -1) { expect_invalid = true ; r.classes.push_back ("seek:beyond_end_refused") ; }
					else { r.classes.push_back ("seek:beyond_end_accepted") ; sf_close (f) ; std::sort (r.classes.begin (), r.classes.end ()) ; r.classes.erase (std::unique (r.classes.begin (), r.classes.end ()), r.classes.end ()) ; r.nontrivial = invalid_then_valid > 0 ; return r ; }
				}
			}
			else if (op == "sn") { got = sf_seek (f, -1 - k, SEEK_SET) ; expect_invalid = true ; }
			else
			{	sf_count_t tgt = frames > 0 ? (sf_count_t) rng.below ((uint64_t) frames + 1) : 0 ;
				got = sf_seek (f, tgt, SEEK_SET) ;
				if (got == -1) { expect_invalid = true ; r.classes.push_back ("seek:refused") ; }	// codec without seek support: allowed, but must then behave like a failed call
				else if (got != tgt) return bail ("valid_seek_result", std::to_string ((long long) got)) ;
				else rpos = tgt ;
			}
			tierA = true ; failed_value = got == -1 ;
			r.classes.push_back (expect_invalid ? "invalid:seek" : "valid:seek") ;
		}
		else if (op [0] == 'c')
		{	if (op == "cu") { int rc = sf_command (f, 0x7777 + (int) k, nullptr, 0) ; (void) rc ; expect_invalid = true ; tierA = true ; failed_value = true ; r.classes.push_back ("invalid:unknown_command") ; }
			else if (op == "cn") { int rc = sf_command (f, SFC_GET_CURRENT_SF_INFO, nullptr, sizeof (SF_INFO)) ; expect_invalid = true ; tierA = true ; failed_value = rc != 0 ; err_in_return = true ; err_from_return = rc ;	/* docs/command.md: "zero on success, non-zero otherwise" - the code is the return value */ r.classes.push_back ("invalid:command_null") ; }
			else if (op == "cv" || op == "cq" || op == "ci")
			{	// cue points / instrument on a handle that can still take them: "cv" sets two cue points (valid), "cq" then offers a cue list whose
				// count does not fit its size and "ci" an instrument with more loops than the structure holds - both must be refused and leave what is stored alone
				if (mode == SFM_READ || have_written) continue ;
				static SF_CUES cu ; memset (&cu, 0, sizeof (cu)) ;
				if (op == "cv")
				{	cu.cue_count = 2 ; for (uint32_t i = 0 ; i < 2 ; i++) { cu.cue_points [i].indx = (int) i + 1 ; cu.cue_points [i].sample_offset = 10 + 7 * i + (uint32_t) k ; cu.cue_points [i].fcc_chunk = 0x61746164 ; snprintf (cu.cue_points [i].name, sizeof (cu.cue_points [i].name), "cue %u", i) ; }
					int rc = sf_command (f, SFC_SET_CUE, &cu, sizeof (cu)) ; r.classes.push_back (rc ? "valid:set_cue" : "valid:set_cue_refused") ; d0 = digest (f, mf) ; last_invalid = false ; continue ;
				}
				int rc ;
				if (op == "cq") { cu.cue_count = 101 ; rc = sf_command (f, SFC_SET_CUE, &cu, sizeof (cu)) ; }
				else { SF_INSTRUMENT in ; memset (&in, 0, sizeof (in)) ; in.loop_count = 17 ; rc = sf_command (f, SFC_SET_INSTRUMENT, &in, sizeof (in) - 8) ; }
				expect_invalid = true ; failed_value = rc == SF_FALSE ; r.classes.push_back (op == "cq" ? "invalid:set_cue" : "invalid:set_instrument") ;
			}
			else { SF_INFO x ; int rc = sf_command (f, SFC_GET_CURRENT_SF_INFO, &x, sizeof (x)) ; if (rc != 0) return bail ("valid_command_failed", std::to_string (rc)) ; double mx ; if (mode != SFM_WRITE && !vox) sf_command (f, SFC_GET_SIGNAL_MAX, &mx, sizeof (mx)) ; checked = true ; r.classes.push_back ("valid:command") ; }
		}
		else if (op [0] == 't')
		{	int rc ;
			if (op == "tr") { if (mode != SFM_READ) continue ; rc = sf_set_string (f, SF_STR_TITLE, "x") ; expect_invalid = true ; }
			else if (op == "tn") { if (mode == SFM_READ) continue ; rc = sf_set_string (f, SF_STR_TITLE, nullptr) ; expect_invalid = true ; }
			else if (op == "tu") { if (mode == SFM_READ) continue ; rc = sf_set_string (f, 0x99, "x") ; expect_invalid = true ; }
			else if (op == "te")
			{	// empty string for a type that may already be set: if the call fails, the stored strings must survive
				if (mode == SFM_READ || !rep.strings || have_written) continue ;
				rc = sf_set_string (f, SF_STR_ARTIST, "") ; if (rc == 0) { d0 = digest (f, mf) ; r.classes.push_back ("valid:set_string") ; last_invalid = false ; continue ; }
				expect_invalid = true ;
			}
			else
			{	if (mode == SFM_READ || !rep.strings || have_written) continue ;
				rc = sf_set_string (f, SF_STR_ARTIST, "an artist") ; if (rc != 0) return bail ("valid_set_string_failed", std::to_string (rc)) ;
				r.classes.push_back ("valid:set_string") ; d0 = digest (f, mf) ;
			}
			if (expect_invalid) { tierA = true ; err_in_return = true ; err_from_return = rc ; failed_value = rc != 0 ; r.classes.push_back ("invalid:set_string") ; }
		}
		else if (op [0] == 'k')
		{	int rc ;
			if (op == "kn") { rc = sf_set_chunk (f, nullptr) ; expect_invalid = true ; }
			else { if (rep.chunks) continue ; SF_CHUNK_INFO ck ; memset (&ck, 0, sizeof (ck)) ; strcpy (ck.id, "test") ; ck.id_size = 4 ; char pl [8] = "payload" ; ck.data = pl ; ck.datalen = 8 ; rc = sf_set_chunk (f, &ck) ; expect_invalid = true ; }
			tierA = false ; err_in_return = true ; err_from_return = rc ; failed_value = rc != 0 ; r.classes.push_back ("invalid:chunk") ;
		}
		else if (op [0] == 'o')
		{	std::string what ; if (bad_open (op [1] >= 'A' ? 10 + op [1] - 'A' : op [1] - '0', what)) return bail ("bad_open", what) ;
			// a failing open on another "file" must not disturb this handle
			expect_invalid = false ; checked = false ;
			if (digest (f, mf) != d0) return bail ("failed_open_disturbed_handle", "") ;
			r.classes.push_back ("invalid:open") ; last_invalid = true ;
			continue ;
		}
		else continue ;
		r.sig.set ("op", op) ;
		if (expect_invalid)
		{	if (!failed_value) return bail ("invalid_call_did_not_fail", op) ;
			if (tierA)
			{	int e = err_in_return ? err_from_return : sf_error (f) ;
				if (e == 0) return bail ("invalid_call_without_error", op) ;
				const char *msg = err_in_return ? sf_error_number (e) : sf_strerror (f) ;
				if (!real_message (msg)) return bail ("invalid_call_without_message", op + " error " + std::to_string (e)) ;
			}
			if (digest (f, mf) != d0)
			{	sf_count_t rd1, wr1 ; sf_verif_get_positions (f, &rd1, &wr1) ; SF_INFO ci1 ; memset (&ci1, 0, sizeof (ci1)) ; sf_command (f, SFC_GET_CURRENT_SF_INFO, &ci1, sizeof (ci1)) ;
				return bail ("invalid_call_changed_state", op + " positions " + std::to_string ((long long) rd0) + "/" + std::to_string ((long long) wr0) + " -> " + std::to_string ((long long) rd1) + "/" + std::to_string ((long long) wr1) + " frames " + std::to_string ((long long) ci0.frames) + " -> " + std::to_string ((long long) ci1.frames)) ;
			}
			last_invalid = true ;
		}
		else if (checked)
		{	if (sf_error (f) != 0) return bail ("error_after_successful_call", op + ": " + sf_err_text (f)) ;
			if (last_invalid) invalid_then_valid ++ ;
			last_invalid = false ;
		}
		int inv = sf_verif_check_invariants (f) ; if (inv) return bail ("invariant", "mask " + std::to_string (inv)) ;
	}
	if (sf_close (f) != 0) return fail ("close_failed", "") ;
	if (open_fds () != fds0) return fail ("descriptor_set_changed", "") ;
		// every history (a window of several would make the reported case the wrong one); the first report switches the check off so
	// that shrink candidates are not blamed for a block that has already leaked
	static bool leak_reported = false ;
	if (!leak_reported && __lsan_do_recoverable_leak_check ()) { leak_reported = true ; return fail ("leak", "LeakSanitizer reports a leak after this history (see stderr)") ; }
	r.nontrivial = invalid_then_valid > 0 ;
	std::sort (r.classes.begin (), r.classes.end ()) ; r.classes.erase (std::unique (r.classes.begin (), r.classes.end ()), r.classes.end ()) ;
	return r ;
}

static Result run_table (const Case &)
{	Result r ; r.nontrivial = true ; r.dhash = fnv_str ("table") ; r.classes = { "error_table" } ;
	auto fail = [&] (const char *kind, const std::string &d) { Result x = r ; x.ok = false ; x.kind = kind ; x.detail = d ; return x ; } ;
	const char *zero = sf_error_number (0) ; if (!zero || !*zero) return fail ("error_table", "no text for 0") ;
	int maxerr = -1 ; for (int k = 1 ; k < 2000 ; k++) { const char *s = sf_error_number (k) ; if (s && strcmp (s, zero) == 0) { maxerr = k ; break ; } }
	if (maxerr < 10) return fail ("error_table", "cannot locate SFE_MAX_ERROR") ;
	std::set<std::string> seen ;
	for (int k = 0 ; k < maxerr ; k++)
	{	const char *s = sf_error_number (k) ;
		if (!s || !*s) return fail ("error_table_empty", std::to_string (k)) ;
		if (strstr (s, "No error defined")) return fail ("error_table_missing_entry", "error number " + std::to_string (k) + " has no message") ;
		ctx.ev.extra ["error_numbers_checked"] ++ ;
	}
	for (int k : { -1, maxerr + 1, 1 << 20 }) { const char *s = sf_error_number (k) ; if (!s || !*s) return fail ("error_table_out_of_range", std::to_string (k)) ; }
	return r ;
}

static Result run_any (const Case &c) { return c.gets ("kind") == "table" ? run_table (c) : run_case (c) ; }

int main (int argc, char **argv)
{	init_io () ;
	ctx.property = "C09" ;
	ctx.parse (argc, argv) ;
	scratch_dir () ;
	if (!ctx.replay.empty ()) { int rc = replay_main (ctx, run_any) ; rm_scratch () ; return rc ; }
	{ Case t ; t.set ("kind", "table") ; if (execute (ctx, t, run_any, nullptr)) { ctx.flush (true) ; fprintf (outf (), "FAIL %s kind=%s detail=%s\n", ctx.path ("failing.case").c_str (), ctx.failing_res.kind.c_str (), ctx.failing_res.detail.c_str ()) ; return 1 ; } }
	int rc = rc_main (ctx, gen_case, run_any, sig_of) ;
	rm_scratch () ;
	return rc ;
}
