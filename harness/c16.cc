// C16 - no leaked memory, descriptors or temporary files for any call history.
// case kinds:  hist      open (format x mode x route) + <= 20 calls incl. every allocating command, failing calls, close
//              malformed valid file of a random format, mutated (truncate / flip / size fields), opened for read by a route
//              fault     open + a few calls under a MemVIO fault plan (fault at callback i of kind k), so opens fail at every stage
// oracle after every case: LeakSanitizer's recoverable check is clean, /proc/self/fd is what it was, the private TMPDIR is empty,
// sf_close returned 0 whenever the route's close succeeds.
#include <sys/resource.h>
#include <signal.h>
#include "vf_file.hpp"
extern "C" int __lsan_do_recoverable_leak_check (void) ;
using namespace vf ;

static Ctx ctx ;

static std::set<int> open_fds ()
{	std::set<int> s ; DIR *d = opendir ("/proc/self/fd") ; if (!d) return s ; int self = dirfd (d) ;
	while (auto *e = readdir (d)) { if (e->d_name [0] == '.') continue ; int fd = atoi (e->d_name) ; if (fd != self) s.insert (fd) ; }
	closedir (d) ; return s ;
}

static Case gen_case ()
{	Case c ;
	int k = *rangeOf<int> (0, 9) ;
	c.set ("kind", k < 5 ? "hist" : "malformed") ;	// opens failing under injected I/O faults are C15's (fork-isolated) domain
	const FmtEntry *e = pickEntry (all_vio_entries ()) ;
	// one case in 25: SD2 (path only) with a damaged resource fork
	static std::vector<const FmtEntry *> sd2 ; if (sd2.empty ()) for (auto *x : all_entries ()) if ((x->format & SF_FORMAT_TYPEMASK) == SF_FORMAT_SD2) sd2.push_back (x) ;
	if (!sd2.empty () && *rangeOf<int> (0, 11) == 0) { e = *rc::gen::elementOf (sd2) ; c.set ("kind", "malformed") ; c.seti ("sd2map", *rangeOf<int> (0, 9)) ; c.seti ("sd2field", *rangeOf<int> (0, 11)) ; }
	c.set ("fmt", format_str (e->format)) ; c.seti ("format", e->format) ;
	int ch = pickChannels (e, 8) ; c.seti ("ch", ch) ;
	c.set ("mode", *rc::gen::element<std::string> ("read", "write", "write", "rdwr")) ;
	c.set ("route", *rc::gen::element<std::string> ("mem", "mem", "path", "fd0", "fd1")) ;
	c.seti ("seed", (long long) *seedGen ()) ;
	c.seti ("nops", *rangeOf<int> (0, 20)) ;
	c.seti ("frames", *rc::gen::element (0, 1, 100, 5000)) ;
	c.seti ("nchunks", *rc::gen::element (0, 0, 3, 25, 60)) ;
	c.seti ("mut", *rangeOf<int> (0, 7)) ; c.seti ("cut", *rangeOf<int> (0, 1000)) ;
	c.seti ("fault_at", *rangeOf<int> (1, 60)) ; c.seti ("fault_kind", *rangeOf<int> (1, FK_COUNT - 1)) ; c.seti ("persistent", *rangeOf<int> (0, 1)) ;
	return c ;
}

static Case sig_of (const Case &c)
{	int format = (int) c.geti ("format") ; Case s ;
	s.set ("container", major_name (format)) ; const Codec *cd = codec_of (format) ; s.set ("codec", cd ? cd->name : "?") ;
	return s ;
}

static void alloc_commands (SNDFILE *f, Rng &r, int ch, bool allow_big)
{	switch (r.below (12))
	{	case 0 : sf_set_string (f, SF_STR_TITLE + (int) r.below (9), "some text value") ; break ;
		case 1 : { SF_BROADCAST_INFO b ; memset (&b, 0, sizeof (b)) ; strcpy (b.description, "d") ; strcpy (b.coding_history, "A=PCM\r\n") ; b.coding_history_size = 7 ; sf_command (f, SFC_SET_BROADCAST_INFO, &b, sizeof (b)) ; break ; }
		case 2 : { SF_CART_INFO ct ; memset (&ct, 0, sizeof (ct)) ; strcpy (ct.title, "t") ; sf_command (f, SFC_SET_CART_INFO, &ct, sizeof (ct)) ; break ; }
		case 3 : { static SF_CUES cu ; memset (&cu, 0, sizeof (cu)) ; cu.cue_count = (uint32_t) r.below (allow_big ? 100 : 5) ; for (uint32_t i = 0 ; i < cu.cue_count ; i++) cu.cue_points [i].indx = (int) i + 1 ; sf_command (f, SFC_SET_CUE, &cu, sizeof (cu)) ; break ; }
		case 4 : { SF_INSTRUMENT in ; memset (&in, 0, sizeof (in)) ; in.loop_count = (int) r.below (3) ; in.loops [0].mode = SF_LOOP_FORWARD ; sf_command (f, SFC_SET_INSTRUMENT, &in, sizeof (in)) ; break ; }
		case 5 : { SF_CHUNK_INFO ci ; memset (&ci, 0, sizeof (ci)) ; strcpy (ci.id, "Test") ; ci.id_size = 4 ; char pl [40] = "payload" ; ci.data = pl ; ci.datalen = (unsigned) (1 + r.below (39)) ; sf_set_chunk (f, &ci) ; break ; }
		case 6 : sf_command (f, SFC_SET_ADD_PEAK_CHUNK, nullptr, (int) r.below (2)) ; break ;
		case 7 : { std::vector<int> map ((size_t) ch) ; for (int i = 0 ; i < ch ; i++) map [(size_t) i] = SF_CHANNEL_MAP_LEFT + i % 10 ; sf_command (f, SFC_SET_CHANNEL_MAP_INFO, map.data (), (int) (ch * sizeof (int))) ; break ; }
		case 8 : { SF_DITHER_INFO di ; memset (&di, 0, sizeof (di)) ; di.type = SFD_WHITE ; di.level = 0.5 ; sf_command (f, SFC_SET_DITHER_ON_WRITE, &di, sizeof (di)) ; sf_command (f, SFC_SET_DITHER_ON_READ, &di, sizeof (di)) ; break ; }
		case 9 : sf_command (f, SFC_SET_UPDATE_HEADER_AUTO, nullptr, SF_TRUE) ; sf_command (f, SFC_UPDATE_HEADER_NOW, nullptr, 0) ; break ;
		case 10 : { double q = 0.5 ; sf_command (f, SFC_SET_COMPRESSION_LEVEL, &q, sizeof (q)) ; sf_command (f, SFC_SET_CLIPPING, nullptr, SF_TRUE) ; sf_command (f, SFC_SET_SCALE_FLOAT_INT_READ, nullptr, SF_TRUE) ; break ; }
		default : { static SF_CUES cu ; sf_command (f, SFC_GET_CUE, &cu, sizeof (cu)) ; char log [512] ; sf_command (f, SFC_GET_LOG_INFO, log, sizeof (log)) ; double mx ; sf_command (f, SFC_CALC_SIGNAL_MAX, &mx, sizeof (mx)) ; break ; }
	}
}

struct Opened { SNDFILE *f = nullptr ; int fd = -1 ; bool close_desc = false ; std::string path ; MemFile *mem = nullptr ; } ;

static Opened open_route (const std::string &route, int mode, SF_INFO *info, MemFile &mf, const std::vector<uint8_t> *content)
{	Opened o ;
	if (route == "mem") { if (content) mf.data = *content ; o.mem = &mf ; o.f = open_mem (mf, mode, info) ; return o ; }
	o.path = scratch_dir () + "/c16_" + std::to_string ((long) getpid ()) + ".dat" ; unlink (o.path.c_str ()) ;
	if (content) write_file (o.path, *content) ;
	if (route == "path") { o.f = sf_open (o.path.c_str (), mode, info) ; return o ; }
	int flags = mode == SFM_READ ? O_RDONLY : (O_RDWR | O_CREAT) ;
	o.fd = open (o.path.c_str (), flags, 0644) ; o.close_desc = route == "fd1" ;
	if (o.fd >= 0) o.f = sf_open_fd (o.fd, mode, info, o.close_desc) ;
	return o ;
}
// returns a description of what went wrong closing, or ""
static std::string close_route (Opened &o)
{	std::string bad ;
	if (o.f) { int rc = sf_close (o.f) ; if (rc != 0) bad = "sf_close returned " + std::to_string (rc) ; }
	if (o.fd >= 0)
	{	bool still_open = fcntl (o.fd, F_GETFD) != -1 ;
		if (o.f && o.close_desc && still_open) bad = "descriptor still open although close_desc was true" ;
		if (o.f && !o.close_desc && !still_open) bad = "descriptor closed although close_desc was false" ;
		if (still_open) close (o.fd) ;
		// (when sf_open_fd failed the documentation does not say who owns the descriptor: closed here if still open)
	}
	if (!o.path.empty ()) { unlink (o.path.c_str ()) ; std::string d = o.path ; auto p = d.rfind ('/') ; unlink ((d.substr (0, p + 1) + "._" + d.substr (p + 1)).c_str ()) ; }
	return bad ;
}

static Result run_case (const Case &c)
{	Result r ; r.sig = sig_of (c) ;
	OpenSpec s ; s.format = (int) c.geti ("format") ; s.ch = (int) c.geti ("ch") ; s.rate = 44100 ; int ch = s.ch ;
	std::string kind = c.gets ("kind"), route = c.gets ("route"), ms = c.gets ("mode") ; int mode = ms == "read" ? SFM_READ : ms == "write" ? SFM_WRITE : SFM_RDWR ;
	Rng rng ((uint64_t) c.geti ("seed")) ; long long frames = c.geti ("frames") ; int nops = (int) c.geti ("nops") ;
	const Codec *cd = codec_of (s.format) ; bool vox = cd->subtype == SF_FORMAT_VOX_ADPCM ; if (vox && ((frames * ch) & 1)) frames ++ ;
	auto fail = [&] (const char *k, const std::string &d) { Result x = r ; x.ok = false ; x.kind = k ; x.detail = d ; return x ; } ;
	r.dhash = fnv_str (c.str ()) ;
	r.classes = { "kind:" + kind, std::string ("container:") + major_name (s.format), "route:" + route, "mode:" + ms } ;
	std::set<int> fds0 = open_fds () ; std::vector<std::string> tmp0 = list_dir (scratch_dir ()) ;
	bool alloc_used = false, failed_open = false ; std::string closebad ;
	// a valid file for the read-side kinds
	std::vector<uint8_t> valid ;
	if (kind != "hist" || mode != SFM_WRITE)
	{	MemFile w ; SNDFILE *f = open_write_mem (w, s) ;
		if (f)
		{	// half of the files carry cue points and strings but no instrument (AIFF writes its MARK chunk only then)
			if (c.geti ("seed") & 1)
			{	static SF_CUES cu ; memset (&cu, 0, sizeof (cu)) ; cu.cue_count = 4 ; for (uint32_t i = 0 ; i < 4 ; i++) { cu.cue_points [i].indx = (int) i + 1 ; cu.cue_points [i].sample_offset = 10 * i ; snprintf (cu.cue_points [i].name, sizeof (cu.cue_points [i].name), "cue %u", i) ; }
				sf_command (f, SFC_SET_CUE, &cu, sizeof (cu)) ; sf_set_string (f, SF_STR_ARTIST, "an artist") ; sf_set_string (f, SF_STR_COPYRIGHT, "(c) someone") ;
				for (int i = 0 ; i < 2 ; i++) { int k ; Rng r2 (rng.next ()) ; do { k = (int) r2.below (12) ; } while (k == 4) ; (void) k ; }
			}
			else for (int i = 0 ; i < 4 ; i++) alloc_commands (f, rng, ch, true) ;
			// many custom chunks, so that readers grow their chunk tables (capacity steps at 20, 31, 48, ...)
			for (long long i = 0, n = c.geti ("nchunks") ; i < n ; i++) { SF_CHUNK_INFO ci ; memset (&ci, 0, sizeof (ci)) ; snprintf (ci.id, sizeof (ci.id), "c%03lld", i) ; ci.id_size = 4 ; char pl [8] = "abcdefg" ; ci.data = pl ; ci.datalen = 8 ; if (sf_set_chunk (f, &ci) != 0) break ; }
			std::vector<short> a ((size_t) frames * ch) ; for (auto &x : a) x = (short) rng.next () ; if (frames) sf_writef_short (f, a.data (), frames) ;
			sf_close (f) ; valid = w.data ;
		}
	}
	if (kind == "hist")
	{	MemFile mf ; SF_INFO info ; memset (&info, 0, sizeof (info)) ;
		if (mode == SFM_WRITE || (s.format & SF_FORMAT_TYPEMASK) == SF_FORMAT_RAW || valid.empty ()) { info.format = s.format ; info.channels = ch ; info.samplerate = 44100 ; }
		if (route != "mem" && (s.format & SF_FORMAT_TYPEMASK) == SF_FORMAT_SD2 && route != "path") route = "path" ;
		Opened o = open_route (route, mode, &info, mf, mode == SFM_WRITE ? nullptr : &valid) ;
		if (!o.f) failed_open = true ;
		else
		{	for (int i = 0 ; i < nops ; i++)
			{	int k = (int) rng.below (10) ;
				if (k < 4) { alloc_commands (o.f, rng, ch, true) ; alloc_used = true ; }
				else if (k < 6) { long long n = 1 + (long long) rng.below (300) ; if (vox && ((n * ch) & 1)) n ++ ; std::vector<short> b ((size_t) n * ch, 7) ; sf_writef_short (o.f, b.data (), n) ; }	// fails on read handles: that is a "failed call"
				else if (k < 8) { long long n = 1 + (long long) rng.below (300) ; if (vox && ((n * ch) & 1)) n ++ ; std::vector<float> b ((size_t) n * ch) ; sf_readf_float (o.f, b.data (), n) ; }
				else if (k == 8) sf_seek (o.f, (sf_count_t) rng.below (200), SEEK_SET) ;
				else { sf_command (o.f, 0x7654, nullptr, 0) ; sf_seek (o.f, -5, SEEK_SET) ; short one ; sf_read_short (o.f, &one, -1) ; }
			}
		}
		// one real-file write history in three is closed while the file system refuses every further byte (RLIMIT_FSIZE 0: write(2) fails
		// with EFBIG) - whatever sf_close still wanted to write fails, and it must release everything all the same
		bool diskfull = o.f && route != "mem" && mode != SFM_READ && (c.geti ("seed") % 3) == 0 ;
		struct rlimit oldlim ;
		if (diskfull) { signal (SIGXFSZ, SIG_IGN) ; getrlimit (RLIMIT_FSIZE, &oldlim) ; struct rlimit nl = oldlim ; nl.rlim_cur = 0 ; if (setrlimit (RLIMIT_FSIZE, &nl) != 0) diskfull = false ; }
		closebad = close_route (o) ;
		if (diskfull)
		{	setrlimit (RLIMIT_FSIZE, &oldlim) ; r.classes.push_back ("close:file_system_full") ;
			if (closebad.compare (0, 17, "sf_close returned") == 0) closebad.clear () ;	// the failed write may be reported; descriptors and memory are checked below
		}
	}
	else if (kind == "malformed" && (s.format & SF_FORMAT_TYPEMASK) == SF_FORMAT_SD2)
	{	// SD2 keeps everything in a resource fork ("._name" next to the data file): write a valid pair by path, damage the fork, open by path
		std::string dir = scratch_dir (), name = "c16sd2_" + std::to_string ((long) getpid ()) + ".sd2", path = dir + "/" + name, rpath = dir + "/._" + name ;
		unlink (path.c_str ()) ; unlink (rpath.c_str ()) ;
		SF_INFO wi ; memset (&wi, 0, sizeof (wi)) ; wi.format = s.format ; wi.channels = ch ; wi.samplerate = 44100 ; SNDFILE *w = sf_open (path.c_str (), SFM_WRITE, &wi) ;
		if (w) { std::vector<short> a ((size_t) 64 * ch, 1234) ; sf_writef_short (w, a.data (), 64) ; sf_close (w) ; }
		std::vector<uint8_t> fork ; read_file (rpath, fork) ; int mut = (int) c.geti ("mut") ; size_t cut = fork.empty () ? 0 : (size_t) c.geti ("cut") * fork.size () / 1000 ;
		long long sd2map = c.has ("sd2map") ? c.geti ("sd2map") : 9 ;
		if (fork.size () >= 16 && sd2map < 3)
		{	// map-aware damage: one 16-bit field of the resource map (type list offset, name list offset, type count, the first two type entries) gets a
			// value that is consistent with the checks before it - the parser fails in the middle of its walk, not at the door
			size_t map = ((size_t) fork [4] << 24) | ((size_t) fork [5] << 16) | ((size_t) fork [6] << 8) | fork [7] ;
			static const uint16_t vals [] = { 0x7fff, 0x1000, 0x0400, 0x0100, 0x0040, 27, 0xffff, 0x8000 } ; uint16_t v = vals [rng.below (8)] ;
			size_t at = map + 24 + 2 * (size_t) c.geti ("sd2field") ;
			if (at + 1 < fork.size ()) { fork [at] = (uint8_t) (v >> 8) ; fork [at + 1] = (uint8_t) v ; r.classes.push_back ("sd2_fork:map_field_" + std::to_string (24 + 2 * c.geti ("sd2field"))) ; }
			write_file (rpath, fork) ;
		}
		else if (!fork.empty ())
		{	switch (mut)
			{	case 0 : case 1 : fork.resize (cut) ; break ;
				case 2 : fork [cut % fork.size ()] ^= (uint8_t) (1 + rng.below (255)) ; break ;
				case 3 : case 4 : { static const uint16_t vals [] = { 0xffff, 0, 1, 0x7fff, 0x8000, 27, 28, 29 } ; uint16_t v = vals [rng.below (8)] ; size_t at = (cut & ~(size_t) 1) % fork.size () ; fork [at] = (uint8_t) (v >> 8) ; if (at + 1 < fork.size ()) fork [at + 1] = (uint8_t) v ; } break ;
				case 5 : { static const uint32_t vals [] = { 0xffffffffu, 0, 16, 0x7fffffffu, 0x100, 28 } ; uint32_t v = vals [rng.below (6)] ; size_t at = (size_t) (4 * rng.below (4)) ; for (size_t i = 0 ; i < 4 && at + i < fork.size () ; i++) fork [at + i] = (uint8_t) (v >> (24 - 8 * i)) ; } break ;	// the four header words: data offset, map offset, data length, map length
				default : for (int i = 0 ; i < 4 ; i++) fork [rng.below (fork.size ())] = (uint8_t) rng.next () ; break ;
			}
			write_file (rpath, fork) ;
		}
		SF_INFO info ; memset (&info, 0, sizeof (info)) ; SNDFILE *g = sf_open (path.c_str (), SFM_READ, &info) ;
		if (!g) failed_open = true ; else { int chn = info.channels > 0 && info.channels <= 1024 ? info.channels : 1 ; long long n = chn <= 256 ? 256 / chn : 1 ; Block b ((size_t) n * chn * 2) ; if (info.channels == chn) sf_readf_short (g, (short *) b.p, n) ; if (sf_close (g) != 0) closebad = "sf_close failed" ; }
		unlink (path.c_str ()) ; unlink (rpath.c_str ()) ;
		r.classes.push_back (failed_open ? "sd2_fork:rejected" : "sd2_fork:opened") ;
	}
	else if (kind == "malformed")
	{	std::vector<uint8_t> bytes = valid ; int mut = (int) c.geti ("mut") ; size_t cut = bytes.empty () ? 0 : (size_t) c.geti ("cut") * bytes.size () / 1000 ;
		// every other case the cut / flip position falls into the first 2 KiB, where the header chunks are
		if (!bytes.empty () && (c.geti ("cut") & 1)) cut = (size_t) c.geti ("cut") * std::min<size_t> (bytes.size (), 2048) / 1000 ;
		if (!bytes.empty ())
		{	switch (mut)
			{	case 0 : bytes.resize (cut) ; break ;
				case 1 : bytes.resize (std::min<size_t> (cut, 64)) ; break ;
				case 2 : bytes [cut % bytes.size ()] ^= (uint8_t) (1 + rng.below (255)) ; break ;
				case 3 : for (size_t i = 4 ; i + 4 <= bytes.size () && i < 4096 ; i += 1 + rng.below (64)) if (rng.below (4) == 0) memset (bytes.data () + i, rng.below (2) ? 0xff : 0, 4) ; break ;
				case 4 : bytes.resize (cut) ; if (!bytes.empty ()) bytes [rng.below (std::min<size_t> (bytes.size (), 64))] ^= 0x40 ; break ;
				case 6 : case 7 :
				{	// exactly one field damaged: the size of one chunk (RIFF / FORM families), else one 4-byte field of the header area - a parser
					// that has already built per-chunk state then meets one bad chunk
					auto cks = walk_iff (bytes) ; static const uint32_t vals [] = { 0xffffff00u, 0x7fffffffu, 0x00010000u, 0, 3, 0x80000000u } ; uint32_t v = vals [rng.below (6)] ;
					size_t at = !cks.empty () ? cks [(size_t) c.geti ("cut") % std::min<size_t> (cks.size (), 8)].hdr + 4 : cut ; /* the metadata chunks come first */ bool be = bytes.size () >= 4 && (memcmp (bytes.data (), "FORM", 4) == 0 || memcmp (bytes.data (), "RIFX", 4) == 0) ;
					for (size_t i = 0 ; i < 4 && at + i < bytes.size () ; i++) bytes [at + i] = (uint8_t) (be ? v >> (24 - 8 * i) : v >> (8 * i)) ;
				} break ;
				default : for (int i = 0 ; i < 8 ; i++) bytes [rng.below (std::min<size_t> (bytes.size (), 256))] = (uint8_t) rng.next () ; break ;
			}
		}
		if ((s.format & SF_FORMAT_TYPEMASK) == SF_FORMAT_SD2 && route != "mem") route = "path" ;
		// truncations: seven more cut points spread over the header area are opened (and closed again) before the main one, so
		// that a parser failing after it has allocated per-chunk state is met with useful probability
		if ((mut == 0 || mut == 4) && !valid.empty ()) for (int i = 1 ; i < 8 ; i++)
		{	std::vector<uint8_t> b2 = valid ; size_t area = std::min<size_t> (valid.size (), 2048) ; b2.resize ((cut + (size_t) i * area / 8) % (area + 1)) ;
			MemFile m2 ; SF_INFO i2 ; memset (&i2, 0, sizeof (i2)) ; if ((s.format & SF_FORMAT_TYPEMASK) == SF_FORMAT_RAW) { i2.format = s.format ; i2.channels = ch ; i2.samplerate = 44100 ; }
			Opened o2 = open_route (route, SFM_READ, &i2, m2, &b2) ; if (!o2.f) failed_open = true ; std::string cb = close_route (o2) ; if (!cb.empty ()) closebad = cb ;
		}
		MemFile mf ; SF_INFO info ; memset (&info, 0, sizeof (info)) ;
		if ((s.format & SF_FORMAT_TYPEMASK) == SF_FORMAT_RAW) { info.format = s.format ; info.channels = ch ; info.samplerate = 44100 ; }
		Opened o = open_route (route, SFM_READ, &info, mf, &bytes) ;
		if (!o.f) failed_open = true ;
		else
		{	std::vector<float> b (4096) ; long long n = info.channels > 0 && info.channels <= 1024 ? 4096 / info.channels : 1 ; if (vox) n &= ~1ll ;
			if (n > 0) { sf_readf_float (o.f, b.data (), n) ; sf_seek (o.f, 0, SEEK_SET) ; sf_readf_float (o.f, b.data (), n) ; }
			alloc_commands (o.f, rng, info.channels > 0 && info.channels <= 1024 ? info.channels : 1, false) ;
			for (SF_CHUNK_ITERATOR *it = sf_get_chunk_iterator (o.f, nullptr) ; it ; it = sf_next_chunk_iterator (it)) { SF_CHUNK_INFO ci ; memset (&ci, 0, sizeof (ci)) ; if (sf_get_chunk_size (it, &ci) != 0) break ; }
		}
		closebad = close_route (o) ;
		r.classes.push_back (failed_open ? "malformed:rejected" : "malformed:opened") ;
	}
	else
	{	// fault plan on the MemVIO route: the fault hits at callback i of the open (or of the calls after it)
		MemFile mf ; mf.data = valid ; mf.fault_at = (long) c.geti ("fault_at") ; mf.fault_kind = (int) c.geti ("fault_kind") ; mf.fault_persistent = c.geti ("persistent") != 0 ;
		SF_INFO info ; memset (&info, 0, sizeof (info)) ;
		int m2 = mode == SFM_RDWR ? SFM_READ : mode ;
		if (m2 == SFM_WRITE || (s.format & SF_FORMAT_TYPEMASK) == SF_FORMAT_RAW) { info.format = s.format ; info.channels = ch ; info.samplerate = 44100 ; if (m2 == SFM_WRITE) mf.data.clear () ; }
		mf.reset_budget (2000000) ;
		SNDFILE *f = open_mem (mf, m2, &info) ;
		if (!f) failed_open = true ;
		else
		{	std::vector<short> b ((size_t) 512 * (info.channels > 0 && info.channels <= 1024 ? info.channels : 1)) ; long long n = 512 ; if (vox) n &= ~1ll ;
			if (m2 == SFM_WRITE) { sf_set_string (f, SF_STR_TITLE, "x") ; sf_writef_short (f, b.data (), n) ; sf_command (f, SFC_UPDATE_HEADER_NOW, nullptr, 0) ; sf_writef_short (f, b.data (), n) ; }
			else { sf_readf_short (f, b.data (), n) ; sf_seek (f, 3, SEEK_SET) ; sf_readf_short (f, b.data (), n) ; }
			sf_close (f) ;	// under a failing I/O layer sf_close may legitimately report an error: only resources are checked
		}
		if (mf.budget_blown) return fail ("unbounded_work", "more than 2,000,000 I/O callbacks") ;
		r.classes.push_back (mf.fault_consumed ? "fault:consumed" : "fault:not_reached") ;
		r.classes.push_back (failed_open ? "fault:open_failed" : "fault:opened") ;
	}
	r.nontrivial = alloc_used || failed_open ;
	if (!closebad.empty ()) return fail ("close_contract", closebad) ;
	std::set<int> fds1 = open_fds () ;
	if (fds1 != fds0) { std::string d ; for (int fd : fds1) if (!fds0.count (fd)) { char lk [256] ; ssize_t n = readlink (("/proc/self/fd/" + std::to_string (fd)).c_str (), lk, sizeof (lk) - 1) ; lk [n > 0 ? n : 0] = 0 ; d += " +" + std::to_string (fd) + "(" + lk + ")" ; } for (int fd : fds0) if (!fds1.count (fd)) d += " -" + std::to_string (fd) ; return fail ("descriptor_leak", d) ; }
	std::vector<std::string> tmp1 = list_dir (scratch_dir ()) ;
	if (tmp1 != tmp0)
	{	std::string d ; for (auto &n : tmp1) if (std::find (tmp0.begin (), tmp0.end (), n) == tmp0.end ()) { d += " " + n ; unlink ((scratch_dir () + "/" + n).c_str ()) ; }
		return fail ("temp_file_left", d) ;
	}
	// LeakSanitizer keeps reporting a block once it has leaked: after the first report every later case (every shrink candidate
	// included) would "fail" too and the shrunk case would not be the culprit.  So the first leaking case is reported as it is
	// (no shrinking) and the check is switched off for the rest of this process.
	static bool leak_reported = false ;
	if (!leak_reported && __lsan_do_recoverable_leak_check ()) { leak_reported = true ; return fail ("memory_leak", "LeakSanitizer reports a leak after this case (see stderr)") ; }
	return r ;
}

int main (int argc, char **argv)
{	init_io () ;
	ctx.property = "C16" ;
	ctx.parse (argc, argv) ;
	scratch_dir () ;
	int rc = rc_main (ctx, gen_case, run_case, sig_of) ;
	rm_scratch () ;
	return rc ;
}
