// C11 - after a header update the bytes on disk are already a valid file (crash points).
// case: container with a rewritable header x encoding x channels x write history (partition) x
//       {explicit SFC_UPDATE_HEADER_NOW at random points | SFC_SET_UPDATE_HEADER_AUTO};
// crash point = MemVIO snapshot right after each update / after each write call in auto mode;
// oracle: the snapshot opens on an independent handle, reports the same parameters, frames ==
//         floor(written / B) * B and reads back exactly that prefix of what the finished file decodes to;
//         the finished file decodes to the same frames as a twin written in one call without any update request.
#include "vf_writehist.hpp"
using namespace vf ;

static Ctx ctx ;

static std::vector<const FmtEntry *> &domain ()
{	static std::vector<const FmtEntry *> d ;
	if (d.empty ())
		for (auto *e : all_vio_entries ())
		{	int maj = e->format & SF_FORMAT_TYPEMASK, sub = e->format & SF_FORMAT_SUBMASK ;
			if (maj == SF_FORMAT_RAW) continue ;								// headerless: nothing to update
			if (sub >= SF_FORMAT_ALAC_16 && sub <= SF_FORMAT_ALAC_32) continue ;	// excluded by the statement
			d.push_back (e) ;
		}
	return d ;
}

static Case gen_case ()
{	const FmtEntry *e = pickEntry (domain ()) ;
	Case c ;
	c.set ("fmt", format_str (e->format)) ;
	c.seti ("format", e->format) ;
	int ch = pickChannels (e, 12) ;
	c.seti ("ch", ch) ;
	int rate = *rc::gen::element (8000, 11025, 22050, 44100, 48000) ;
	c.seti ("rate", rate) ;
	long long maxN = (ctx.thorough ? 65536 : 12288) / ch ; if (maxN < 8) maxN = 8 ;
	c.seti ("n", *lengthGen (nominal_block (e->format, ch, rate), maxN)) ;
	c.set ("t", stype_name [*rangeOf<int> (0, 3)]) ;
	c.set ("style", style_name [*rangeOf<int> (0, ST_COUNT - 1)]) ;
	c.seti ("seed", (long long) *seedGen ()) ;
	c.seti ("qseed", (long long) *seedGen ()) ;
	c.seti ("auto", *rangeOf<int> (0, 2) == 0) ;
	c.seti ("upd", *rc::gen::element (1, 2, 3)) ;
	c.seti ("seekback", *rangeOf<int> (0, 2) == 0) ;
	c.seti ("rdwr", *rangeOf<int> (0, 3) == 0) ;
	c.seti ("raw", *rangeOf<int> (0, 3) == 0) ;	// sample-granular encodings: the audio goes in through sf_write_raw
	return c ;
}

static Case sig_of (const Case &c)
{	int format = (int) c.geti ("format") ;
	Case s ;
	s.set ("container", major_name (format)) ;
	const Codec *cd = codec_of (format) ; s.set ("codec", cd ? cd->name : "?") ;
	s.set ("endian", endian_name (format)) ;
	return s ;
}

static Result run_case (const Case &c)
{	Result r ;
	OpenSpec s ; s.format = (int) c.geti ("format") ; s.ch = (int) c.geti ("ch") ; s.rate = (int) c.geti ("rate") ;
	long long N = c.geti ("n") ; int t = stype_from (c.gets ("t")) ; int ts = stype_size (t) ;
	const Codec *cd = codec_of (s.format) ; int maj = s.format & SF_FORMAT_TYPEMASK ;
	bool autohdr = c.geti ("auto") != 0 ;
	r.sig = sig_of (c) ; r.sig.set ("auto", autohdr ? "1" : "0") ;
	int Bn = nominal_block (s.format, s.ch, s.rate) ;
	Block src ((size_t) N * s.ch * ts) ; fill_any (src.p, t, (size_t) N * s.ch, style_from (c.gets ("style")), (uint64_t) c.geti ("seed")) ;
	Rng qr ((uint64_t) c.geti ("qseed")) ;
	std::vector<long long> Q = make_partition_updates (qr, N, Bn, s.ch, ts, autohdr ? 0 : (int) c.geti ("upd")) ;
	if (!autohdr && N > 0 && std::find (Q.begin (), Q.end (), 0) == Q.end ()) Q.insert (Q.begin () + 1 + (Q.size () > 1), 0) ;
	bool did_seekback = false ;
	// sample-granular encodings: sometimes seek the write pointer back and overwrite (the same source samples) before an update
	if (c.geti ("seekback") && is_granular (s.format) && N > 4)
	{	std::vector<long long> Q2 ; long long acc = 0 ;
		for (long long p : Q)
		{	if (p == 0 && acc > 2 && qr.below (2) == 0)
			{	long long k = (long long) qr.below ((uint64_t) acc) ; long long len = 1 + (long long) qr.below ((uint64_t) (acc - k)) ;
				if (k + len < acc)
				{	// overwrite [k, k+len), update in the middle of the file, then - every other time - go on writing without a seek before returning to the end
					Q2.push_back (SEEK_MARK + k) ; Q2.push_back (len) ; Q2.push_back (0) ;
					long long more = acc - (k + len) ; if (qr.below (2) == 0 && more > 0) { Q2.push_back (1 + (long long) qr.below ((uint64_t) more)) ; Q2.push_back (0) ; }
					Q2.push_back (SEEK_MARK + acc) ; did_seekback = true ;
				}
			}
			Q2.push_back (p) ;
			if (p != 0) acc += p < 0 ? -p : p ;
			if (acc > N) acc = N ;
		}
		Q = Q2 ;
	}
	auto fail = [&] (const char *kind, const std::string &d) { Result x = r ; x.ok = false ; x.kind = kind ; x.detail = d ; return x ; } ;
	r.dhash = fnv_str (c.gets ("fmt") + "|" + c.gets ("ch") + "|" + std::to_string (N) + "|" + c.gets ("t") + "|" + join_ints (Q) + "|" + c.gets ("auto")) ;
	r.classes = { std::string ("container:") + major_name (s.format), std::string ("codec:") + cd->name, std::string ("mode:") + (autohdr ? "auto" : "explicit"), std::string ("seekback:") + (did_seekback ? "yes" : "no") } ;

	MemFile m ; std::vector<Snapshot> snaps ; int updates = 0, rdwr_reads = 0 ;
	bool rdwr = c.geti ("rdwr") != 0 && is_granular (s.format) && !autohdr ;
	// raw variant: the encoded bytes of the whole signal are taken from a file written through the typed calls first
	std::vector<uint8_t> rawbytes ; int rawbw = 0 ;
	if (c.geti ("raw", 0) && is_granular (s.format) && cd->bytes > 0 && N > 0)
	{	MemFile pre ; std::vector<long long> one { N } ; std::string pe = write_partitioned (pre, s, t, src.p, N, one, false, nullptr) ;
		SF_INFO pi ; MemFile pr ; pr.data = pre.data ; SNDFILE *ph = pe.empty () ? open_read_mem (pr, s, &pi) : nullptr ;
		if (ph) { rawbw = cd->bytes * s.ch ; rawbytes.assign ((size_t) N * rawbw, 0) ; sf_count_t gb = sf_read_raw (ph, rawbytes.data (), (sf_count_t) rawbytes.size ()) ; sf_close (ph) ; if (gb != (sf_count_t) rawbytes.size ()) rawbw = 0 ; }
	}
	r.classes.push_back (std::string ("raw_writes:") + (rawbw ? "yes" : "no")) ;
	std::string e = write_partitioned (m, s, t, src.p, N, Q, autohdr, &snaps, &updates, rdwr, &rdwr_reads, rawbw ? rawbytes.data () : nullptr, rawbw) ;
	r.classes.push_back (std::string ("rdwr_read_before_update:") + (rdwr_reads ? "yes" : "no")) ;
	if (!e.empty ()) return fail ("write_failed", e) ;
	// decode of the finished file (reference for the prefixes)
	SF_INFO fi ; MemFile fin ; fin.data = m.data ;
	SNDFILE *g = open_read_mem (fin, s, &fi) ;
	if (!g) return fail ("final_reopen_failed", sf_strerror (nullptr)) ;
	long long FF = fi.frames ;
	std::vector<uint8_t> ref ((size_t) (FF + 1) * s.ch * ts, 0) ;
	sf_count_t fgot = sf_readf_t (g, t, ref.data (), FF) ;
	sf_close (g) ;
	int B = oracle_block (s.format, s.ch, s.rate, m.data) ;
	if (B <= 0) return fail ("catalogue_error", "block length not found") ;
	// "requesting header updates never changes the audio the finished file contains": a twin written in one call, with no
	// update request, must decode to the same frames
	{	MemFile tw ; std::vector<long long> one ; if (N > 0) one.push_back (N) ;
		std::string te = write_partitioned (tw, s, t, src.p, N, one, false, nullptr) ;
		if (!te.empty ()) return fail ("twin_write_failed", te) ;
		SF_INFO ti ; MemFile twr ; twr.data = tw.data ; SNDFILE *th = open_read_mem (twr, s, &ti) ;
		if (!th) return fail ("twin_reopen_failed", sf_strerror (nullptr)) ;
		std::vector<uint8_t> tref ((size_t) (ti.frames + 1) * s.ch * ts, 0) ;
		sf_count_t tgot = sf_readf_t (th, t, tref.data (), ti.frames) ;
		sf_close (th) ;
		if (ti.frames != FF || tgot != fgot)
			return fail ("updates_changed_finished_length", "finished file with updates: frames " + std::to_string (FF) + " delivered " + std::to_string ((long long) fgot) + "; without: frames " + std::to_string ((long long) ti.frames) + " delivered " + std::to_string ((long long) tgot)) ;
		if (fgot > 0 && memcmp (tref.data (), ref.data (), (size_t) fgot * s.ch * ts) != 0)
		{	size_t i = 0 ; while (i < (size_t) fgot * s.ch && memcmp (tref.data () + i * ts, ref.data () + i * ts, ts) == 0) i ++ ;
			return fail ("updates_changed_finished_audio", "item " + std::to_string (i) + " with updates " + hex (ref.data () + i * ts, ts) + " without " + hex (tref.data () + i * ts, ts)) ;
		}
	}
	bool nt = false ; int k = 0 ;
	for (auto &sn : snaps)
	{	k ++ ;
		std::string where = " (snapshot " + std::to_string (k) + "/" + std::to_string (snaps.size ()) + " after " + std::to_string (sn.written) + " frames, B=" + std::to_string (B) + ")" ;
		MemFile sm ; sm.data = sn.bytes ; SF_INFO si ;
		SNDFILE *h = open_read_mem (sm, s, &si) ;
		if (!h) return fail ("snapshot_not_openable", std::string (sf_strerror (nullptr)) + where) ;
		Result bad ; bad.ok = true ;
		auto flag = [&] (const char *kind, const std::string &d) { if (bad.ok) { bad = fail (kind, d + where) ; } } ;
		if (si.channels != s.ch) flag ("snapshot_channels", std::to_string (si.channels)) ;
		if ((si.format & (SF_FORMAT_TYPEMASK | SF_FORMAT_SUBMASK)) != (s.format & (SF_FORMAT_TYPEMASK | SF_FORMAT_SUBMASK))) flag ("snapshot_format", format_str (si.format)) ;
		if (si.samplerate != fi.samplerate) flag ("snapshot_rate", std::to_string (si.samplerate)) ;
		long long expect = sn.written / B * B ;
		if (si.frames != expect) flag (si.frames < expect ? "snapshot_frames_short" : "snapshot_frames_long", "frames " + std::to_string ((long long) si.frames) + " expected " + std::to_string (expect)) ;
		if (bad.ok)
		{	std::vector<uint8_t> buf ((size_t) (expect + 1) * s.ch * ts, 0xA5) ;
			sf_count_t got = sf_readf_t (h, t, buf.data (), expect + 1) ;
			if (got != expect) flag ("snapshot_delivers_ne_frames", "delivered " + std::to_string ((long long) got) + " expected " + std::to_string (expect)) ;
			else if (expect > fgot) flag ("final_file_shorter_than_snapshot", std::to_string ((long long) fgot)) ;
			else if (expect > 0 && memcmp (buf.data (), ref.data (), (size_t) expect * s.ch * ts) != 0)
			{	size_t i = 0 ; while (i < (size_t) expect * s.ch && memcmp (buf.data () + i * ts, ref.data () + i * ts, ts) == 0) i ++ ;
				flag ("snapshot_audio_ne_final_prefix", "item " + std::to_string (i) + " snapshot " + hex (buf.data () + i * ts, ts) + " finished file " + hex (ref.data () + i * ts, ts)) ;
			}
		}
		sf_close (h) ;
		if (!bad.ok) return bad ;
		if (sn.written % B != 0 && k >= 2) nt = true ;
		if (B == 1 && k >= 2) nt = true ;
	}
	r.nontrivial = nt ;
	r.classes.push_back (std::string ("snapshots:") + (snaps.empty () ? "0" : snaps.size () < 4 ? "1-3" : ">=4")) ;
	ctx.ev.extra ["snapshots_checked"] += (long long) snaps.size () ;
	(void) maj ;
	return r ;
}

int main (int argc, char **argv)
{	init_io () ;
	ctx.property = "C11" ;
	ctx.parse (argc, argv) ;
	scratch_dir () ;
	int rc = rc_main (ctx, gen_case, run_case, sig_of) ;
	rm_scratch () ;
	return rc ;
}
