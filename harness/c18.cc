// C18 - PEAK data and signal-max commands equal the true maxima.
//  kind=peak : PEAK-capable container x FLOAT/DOUBLE x channels x buffer with planted maxima/ties x write partition x write type;
//              after re-open SFC_GET_SIGNAL_MAX / SFC_GET_MAX_ALL_CHANNELS and the PEAK chunk itself (value + position, found
//              by an independent chunk walker) equal the model: max |x| per channel, frame index of its first occurrence.
//  kind=calc : any seekable catalogue entry x read position x NORM settings; SFC_CALC_* equal the maximum over an independent
//              sequential double read under the same normalisation, and leave position and settings alone.
#include "vf_writehist.hpp"
using namespace vf ;

static Ctx ctx ;

static std::vector<const FmtEntry *> &peak_domain ()
{	static std::vector<const FmtEntry *> d ;
	if (d.empty ()) for (auto *e : all_vio_entries ())
	{	int maj = e->format & SF_FORMAT_TYPEMASK ; if (!e->codec->is_float) continue ;
		if (maj == SF_FORMAT_WAV || maj == SF_FORMAT_WAVEX || maj == SF_FORMAT_AIFF || maj == SF_FORMAT_CAF || maj == SF_FORMAT_RF64) d.push_back (e) ;
	}
	return d ;
}

static Case gen_case ()
{	Case c ;
	bool peak = *rangeOf<int> (0, 9) < 6 ;
	c.set ("kind", peak ? "peak" : "calc") ;
	const FmtEntry *e = pickEntry (peak ? peak_domain () : all_vio_entries ()) ;
	c.set ("fmt", format_str (e->format)) ; c.seti ("format", e->format) ;
	int ch = pickChannels (e, 12) ; c.seti ("ch", ch) ;
	long long maxN = 12288 / ch ; if (maxN < 4) maxN = 4 ;
	c.seti ("n", *rc::gen::weightedOneOf<long long> ({ { 3, rangeOf<long long> (1, 40) }, { 3, rangeOf<long long> (1, maxN) }, { 1, rc::gen::element<long long> (2047, 2048, 2049, 4096, 1024) } })) ;
	c.seti ("seed", (long long) *seedGen ()) ;
	c.seti ("pseed", (long long) *seedGen ()) ;
	c.seti ("sessions", *rangeOf<int> (0, 3) == 0 ? 2 : 1) ;
	c.set ("t", stype_name [*rangeOf<int> (0, 3)]) ;
	c.seti ("plant", *rangeOf<int> (0, 7)) ;	// where the maximum sits: 0 first frame, 1 last frame, 2 call boundary, 3 tie within call, 4 tie across calls, 5 tie across channels, 6 all zero, 7 random
	c.seti ("neg", *rangeOf<int> (0, 1)) ;
	c.seti ("pos", *rangeOf<int> (0, 3)) ;	// calc: read position class 0 start, 1 middle, 2 end, 3 after a read
	c.seti ("nd", *rangeOf<int> (0, 1)) ; c.seti ("nf", *rangeOf<int> (0, 1)) ;
	return c ;
}

static Case sig_of (const Case &c)
{	int format = (int) c.geti ("format") ; Case s ;
	s.set ("container", major_name (format)) ; const Codec *cd = codec_of (format) ; s.set ("codec", cd ? cd->name : "?") ; s.set ("endian", endian_name (format)) ;
	if (cd && cd->granular) s.set ("bytes_odd", (c.geti ("n") * c.geti ("ch") * cd->bytes) & 1 ? "1" : "0") ;
	return s ;
}

// values are multiples of 1/1024 in [-1,1]: exact in float, so every write type (norm on for float/double; short/int unscaled) stores a known value
static Result run_peak (const Case &c)
{	Result r ; r.sig = sig_of (c) ;
	OpenSpec s ; s.format = (int) c.geti ("format") ; s.ch = (int) c.geti ("ch") ; s.rate = 44100 ;
	long long N = c.geti ("n") ; int T = stype_from (c.gets ("t")) ; int ts = stype_size (T) ; int plant = (int) c.geti ("plant") ; bool neg = c.geti ("neg") != 0 ;
	int maj = s.format & SF_FORMAT_TYPEMASK ; int ch = s.ch ;
	auto fail = [&] (const char *kind, const std::string &d) { Result x = r ; x.ok = false ; x.kind = kind ; x.detail = d ; return x ; } ;
	Rng rng ((uint64_t) c.geti ("seed")), pr ((uint64_t) c.geti ("pseed")) ;
	// integer grid k in [-1000, 1000]; the file value is k/1024 for float/double writes and k for short/int writes (unscaled)
	std::vector<int> k ((size_t) N * ch) ;
	for (auto &v : k) v = plant == 6 ? 0 : (int) rng.range (-900, 900) ;
	std::vector<long long> part = make_partition (pr, N, 64, ch, ts) ;
	// frame index at which the second call starts (call boundary)
	long long boundary = part.size () > 1 ? (part [0] < 0 ? -part [0] : part [0]) : N / 2 ; if (boundary >= N) boundary = N - 1 ;
	int big = neg ? -1000 : 1000 ;
	for (int cch = 0 ; cch < ch ; cch++)
	{	auto at = [&] (long long fr) -> int & { return k [(size_t) fr * ch + cch] ; } ;
		switch (plant)
		{	case 0 : at (0) = big ; break ; case 1 : at (N - 1) = big ; break ; case 2 : at (boundary) = big ; break ;
			case 3 : { long long a = (long long) rng.below ((uint64_t) N) ; at (a) = big ; at ((long long) rng.below ((uint64_t) N)) = -big ; break ; }
			case 4 : { at (boundary > 0 ? boundary - 1 : 0) = big ; at (boundary) = big ; if (N > boundary + 1) at (N - 1) = -big ; break ; }
			case 5 : at ((long long) rng.below ((uint64_t) N)) = (cch & 1) ? big : -big ; break ;
			default : break ;
		}
	}
	// model
	std::vector<double> mval (ch, 0.0) ; std::vector<long long> mpos (ch, 0) ;
	double unit = (T == T_FLOAT || T == T_DOUBLE) ? 1.0 / 1024.0 : 1.0 ;
	for (int cch = 0 ; cch < ch ; cch++) for (long long fr = 0 ; fr < N ; fr++) { double a = fabs ((double) k [(size_t) fr * ch + cch]) * unit ; if (a > mval [cch]) { mval [cch] = a ; mpos [cch] = fr ; } }
	Block src ((size_t) N * ch * ts) ;
	for (size_t i = 0 ; i < k.size () ; i++)
	{	if (T == T_SHORT) ((short *) src.p) [i] = (short) k [i] ; else if (T == T_INT) ((int *) src.p) [i] = k [i] ; else if (T == T_FLOAT) ((float *) src.p) [i] = (float) k [i] / 1024.0f ; else ((double *) src.p) [i] = (double) k [i] / 1024.0 ; }
	MemFile m ; SNDFILE *f = open_write_mem (m, s) ; if (!f) return fail ("open_write_failed", sf_strerror (nullptr)) ;
	if (maj == SF_FORMAT_RF64) sf_command (f, SFC_SET_ADD_PEAK_CHUNK, nullptr, SF_TRUE) ;
	long long done = 0 ;
	// two sessions: the file is closed after some of the calls, re-opened read/write and the rest is appended - the PEAK data of the
	// finished file still describes everything that was written
	size_t split_at = (c.geti ("sessions", 1) == 2 && part.size () > 1) ? 1 + (size_t) pr.below (part.size () - 1) : 0 ; size_t calls = 0 ; bool two = false ;
	for (long long p : part)
	{	if (split_at && calls ++ == split_at)
		{	if (sf_close (f) != 0) return fail ("close_failed", "first session") ;
			SF_INFO i2 ; memset (&i2, 0, sizeof (i2)) ; f = open_mem (m, SFM_RDWR, &i2) ; if (!f) return fail ("reopen_rdwr_failed", sf_strerror (nullptr)) ;
			if (i2.frames != done) { sf_close (f) ; return fail ("reopen_rdwr_frames", std::to_string ((long long) i2.frames) + " written " + std::to_string (done)) ; }
			if (sf_seek (f, 0, SEEK_END | SFM_WRITE) != done) { sf_close (f) ; return fail ("reopen_rdwr_seek_end", "") ; }
			two = true ;
		}
		long long fr = p < 0 ? -p : p ; Block b ((size_t) fr * ch * ts) ; memcpy (b.p, src.p + (size_t) done * ch * ts, b.n) ;
		sf_count_t w = p < 0 ? sf_write_t (f, T, b.p, fr * ch) : sf_writef_t (f, T, b.p, fr) ;
		if (w != (p < 0 ? fr * ch : fr)) { sf_close (f) ; return fail ("short_write", std::to_string ((long long) w)) ; }
		done += fr ;
	}
	// SFC_GET_SIGNAL_MAX on the write handle too
	{	double mx = -1 ; int rc = sf_command (f, SFC_GET_SIGNAL_MAX, &mx, sizeof (mx)) ; double all = 0 ; for (double v : mval) all = std::max (all, v) ;
		if (rc == SF_TRUE && mx != all) { sf_close (f) ; return fail ("signal_max_while_writing", std::to_string (mx) + " model " + std::to_string (all)) ; }
	}
	if (sf_close (f) != 0) return fail ("close_failed", "") ;
	r.dhash = fnv_str (c.str ()) ; r.nontrivial = ch >= 2 && (plant == 2 || plant == 3 || plant == 4 || plant == 5) ;
	r.classes = { "kind:peak", std::string ("container:") + major_name (s.format), std::string ("codec:") + codec_of (s.format)->name, "plant:" + std::to_string (plant), std::string ("t:") + c.gets ("t"), std::string ("calls:") + (part.size () > 1 ? "many" : "1"), std::string ("sessions:") + (two ? "2" : "1") } ;
	// independent look at the PEAK chunk
	bool found_chunk = false ;
	if (maj != SF_FORMAT_CAF)
	{	for (auto &ck : walk_iff (m.data))
			if (ck.id == "PEAK" && ck.data + 8 + (size_t) ch * 8 <= m.data.size ())
			{	found_chunk = true ; bool be = maj == SF_FORMAT_AIFF || memcmp (m.data.data (), "RIFX", 4) == 0 ;
				for (int cch = 0 ; cch < ch ; cch++)
				{	const uint8_t *q = m.data.data () + ck.data + 8 + (size_t) cch * 8 ; uint32_t vb = be ? rd_be32 (q) : rd_le32 (q) ; uint32_t pb = be ? rd_be32 (q + 4) : rd_le32 (q + 4) ;
					float fv ; memcpy (&fv, &vb, 4) ;
					if (fv != (float) mval [cch]) return fail ("peak_chunk_value", "channel " + std::to_string (cch) + " chunk " + std::to_string (fv) + " model " + std::to_string (mval [cch])) ;
					if ((long long) pb != mpos [cch]) return fail ("peak_chunk_position", "channel " + std::to_string (cch) + " chunk " + std::to_string (pb) + " model " + std::to_string (mpos [cch]) + " (value " + std::to_string (mval [cch]) + ")") ;
				}
			}
		if (!found_chunk && maj != SF_FORMAT_RF64) return fail ("peak_chunk_missing", "") ;
	}
	// re-open: SFC_GET_SIGNAL_MAX / SFC_GET_MAX_ALL_CHANNELS
	MemFile rd ; rd.data = m.data ; SF_INFO ri ; SNDFILE *g = open_read_mem (rd, s, &ri) ; if (!g) return fail ("reopen_failed", sf_strerror (nullptr)) ;
	double mx = -1 ; int rc = sf_command (g, SFC_GET_SIGNAL_MAX, &mx, sizeof (mx)) ; double all = 0 ; for (double v : mval) all = std::max (all, v) ;
	std::vector<double> per ((size_t) ch, 1e300) ; int rc2 = sf_command (g, SFC_GET_MAX_ALL_CHANNELS, per.data (), (int) (sizeof (double) * ch)) ;
	sf_close (g) ;
	if (found_chunk || maj == SF_FORMAT_CAF)
	{	if (rc != SF_TRUE) return fail ("get_signal_max_failed", std::to_string (rc)) ;
		if (mx != (double) (float) all) return fail ("get_signal_max", std::to_string (mx) + " model " + std::to_string (all)) ;
		if (rc2 != SF_TRUE) return fail ("get_max_all_channels_failed", std::to_string (rc2)) ;
		for (int cch = 0 ; cch < ch ; cch++) if (per [cch] != (double) (float) mval [cch]) return fail ("get_max_all_channels", "channel " + std::to_string (cch) + " " + std::to_string (per [cch]) + " model " + std::to_string (mval [cch])) ;
	}
	return r ;
}

static Result run_calc (const Case &c)
{	Result r ; r.sig = sig_of (c) ;
	OpenSpec s ; s.format = (int) c.geti ("format") ; s.ch = (int) c.geti ("ch") ; s.rate = 44100 ; int ch = s.ch ;
	long long N = c.geti ("n") ; int T = stype_from (c.gets ("t")) ;
	auto fail = [&] (const char *kind, const std::string &d) { Result x = r ; x.ok = false ; x.kind = kind ; x.detail = d ; return x ; } ;
	bool vox = (s.format & SF_FORMAT_SUBMASK) == SF_FORMAT_VOX_ADPCM ; if (vox && ((N * ch) & 1)) N ++ ;
	MemFile m ; std::vector<long long> part { N } ;
	std::string e = write_whole (m, s, T, N, (int) (c.geti ("plant") % ST_COUNT), (uint64_t) c.geti ("seed"), part) ; if (!e.empty ()) return fail ("populate_failed", e) ;
	r.dhash = fnv_str (c.str ()) ; r.nontrivial = ch >= 2 && c.geti ("pos") != 0 ;
	r.classes = { "kind:calc", std::string ("container:") + major_name (s.format), std::string ("codec:") + codec_of (s.format)->name, "pos:" + c.gets ("pos") } ;
	for (int norm = 0 ; norm < 2 ; norm++)
	{	// oracle: independent sequential read under the same normalisation
		MemFile a ; a.data = m.data ; SF_INFO ri ; SNDFILE *g = open_read_mem (a, s, &ri) ; if (!g) return fail ("open_read_failed", sf_strerror (nullptr)) ;
		if (!ri.seekable) { sf_close (g) ; r.classes.push_back ("unseekable") ; return r ; }
		sf_command (g, SFC_SET_NORM_DOUBLE, nullptr, norm) ;
		std::vector<double> all ((size_t) (ri.frames + 4) * ch) ; sf_count_t got = sf_readf_double (g, all.data (), ri.frames + 4) ; sf_close (g) ;
		std::vector<double> mper ((size_t) ch, 0.0) ; double mall = 0 ;
		for (sf_count_t i = 0 ; i < got * ch ; i++) { double v = fabs (all [(size_t) i]) ; mper [(size_t) (i % ch)] = std::max (mper [(size_t) (i % ch)], v) ; mall = std::max (mall, v) ; }
		// handle under test, with its own settings and a non-trivial read position
		MemFile b ; b.data = m.data ; SNDFILE *f = open_read_mem (b, s, &ri) ; if (!f) return fail ("open_read_failed", sf_strerror (nullptr)) ;
		int nd = (int) c.geti ("nd"), nf = (int) c.geti ("nf") ;
		sf_command (f, SFC_SET_NORM_DOUBLE, nullptr, nd) ; sf_command (f, SFC_SET_NORM_FLOAT, nullptr, nf) ;
		int pc = (int) c.geti ("pos") ; sf_count_t want = pc == 0 ? 0 : pc == 1 ? ri.frames / 2 : pc == 2 ? ri.frames : 0 ;
		if (pc == 3) { std::vector<short> tmp ((size_t) 7 * ch) ; want = sf_readf_short (f, tmp.data (), 7) ; }
		else if (want && sf_seek (f, want, SEEK_SET) != want) { sf_close (f) ; r.classes.push_back ("seek_refused") ; continue ; }
		sf_count_t p0 = sf_seek (f, 0, SEEK_CUR) ;
		double one = 1e300 ; int cmd1 = norm ? SFC_CALC_NORM_SIGNAL_MAX : SFC_CALC_SIGNAL_MAX, cmdn = norm ? SFC_CALC_NORM_MAX_ALL_CHANNELS : SFC_CALC_MAX_ALL_CHANNELS ;
		int rc1 = sf_command (f, cmd1, &one, sizeof (one)) ;
		std::vector<double> per ((size_t) ch, 1e300) ;	// stale garbage the command must overwrite
		int rcn = sf_command (f, cmdn, per.data (), (int) (sizeof (double) * ch)) ;
		sf_count_t p1 = sf_seek (f, 0, SEEK_CUR) ;
		int nd1 = sf_command (f, SFC_GET_NORM_DOUBLE, nullptr, 0), nf1 = sf_command (f, SFC_GET_NORM_FLOAT, nullptr, 0) ;
		// data after the call continues where it was
		// (when the handle's own setting is the one the reference was read under it is not set again: the read then also shows, by behaviour, that the setting survived)
		std::vector<double> nxt ((size_t) ch, 0.0) ; if (nd != norm) sf_command (f, SFC_SET_NORM_DOUBLE, nullptr, norm) ; sf_count_t gn = sf_readf_double (f, nxt.data (), 1) ;
		sf_close (f) ;
		std::string tag = std::string (norm ? " (normalised)" : " (unnormalised)") ;
		if (rc1 != 0) return fail ("calc_signal_max_failed", std::to_string (rc1) + tag) ;
		if (one != mall) return fail ("calc_signal_max", std::to_string (one) + " true maximum " + std::to_string (mall) + tag) ;
		if (rcn != 0) return fail ("calc_max_all_channels_failed", std::to_string (rcn) + tag) ;
		for (int cch = 0 ; cch < ch ; cch++) if (per [(size_t) cch] != mper [(size_t) cch]) return fail ("calc_max_all_channels", "channel " + std::to_string (cch) + " " + std::to_string (per [(size_t) cch]) + " true " + std::to_string (mper [(size_t) cch]) + tag) ;
		if (p1 != p0 || p0 != want) return fail ("calc_moved_read_position", std::to_string ((long long) p0) + " -> " + std::to_string ((long long) p1) + tag) ;
		if (nd1 != nd || nf1 != nf) return fail ("calc_changed_norm_setting", "norm_double " + std::to_string (nd) + "->" + std::to_string (nd1) + " norm_float " + std::to_string (nf) + "->" + std::to_string (nf1) + tag) ;
		if (want < got) { if (gn != 1) return fail ("read_after_calc", "returned " + std::to_string ((long long) gn) + tag) ; for (int cch = 0 ; cch < ch ; cch++) if (nxt [(size_t) cch] != all [(size_t) want * ch + cch]) return fail ("read_after_calc", "wrong frame delivered after the call" + tag) ; }
	}
	return r ;
}

static Result run_case (const Case &c) { return c.gets ("kind") == "peak" ? run_peak (c) : run_calc (c) ; }

int main (int argc, char **argv)
{	init_io () ;
	ctx.property = "C18" ;
	ctx.parse (argc, argv) ;
	scratch_dir () ;
	int rc = rc_main (ctx, gen_case, run_case, sig_of) ;
	rm_scratch () ;
	return rc ;
}
