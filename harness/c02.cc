// C02 - sample-type conversions follow the documented rules exactly.
//  (a) read kernels : harness-fabricated RAW data sections (all 2^8 / 2^16 codes, boundary + random 24/32-bit, float, double,
//                     u-law, A-law; both byte orders) read through the 4 API types under every combination of
//                     NORM_FLOAT, NORM_DOUBLE, CLIPPING, SCALE_FLOAT_INT_READ
//  (b) write kernels: all 2^16 shorts, boundary + random ints, boundary + random float/double inputs written through each API
//                     type into every integer / float encoding under NORM_*, CLIPPING, SCALE_INT_FLOAT_WRITE; the produced
//                     file bytes are compared with the model
//  (c) containers   : boundary set through every container/endian that offers the encoding, 4 write types x 4 read types
// The reference model is written from docs/api.md (Note 1, Note 2) and docs/command.md with the arithmetic type pinned down.
#include "vf_file.hpp"
using namespace vf ;

static Ctx ctx ;
static bool g_failed = false ;

static bool report (const Case &c, const Result &r)
{	RunFn give = [&] (const Case &) { return r ; } ;
	bool bad = execute (ctx, c, give, nullptr, false) ;
	if (bad) g_failed = true ;
	return bad ;
}
static Result failr (const std::string &kind, const std::string &detail) { Result r ; r.ok = false ; r.kind = kind ; r.detail = detail ; return r ; }

enum Enc { E_S8 = 0, E_U8, E_16, E_24, E_32, E_F32, E_F64, E_ULAW, E_ALAW, E_COUNT } ;
static const char *enc_name [] = { "PCM_S8", "PCM_U8", "PCM_16", "PCM_24", "PCM_32", "FLOAT", "DOUBLE", "ULAW", "ALAW" } ;
static const int enc_sub [] = { SF_FORMAT_PCM_S8, SF_FORMAT_PCM_U8, SF_FORMAT_PCM_16, SF_FORMAT_PCM_24, SF_FORMAT_PCM_32, SF_FORMAT_FLOAT, SF_FORMAT_DOUBLE, SF_FORMAT_ULAW, SF_FORMAT_ALAW } ;
static const int enc_bytes [] = { 1, 1, 2, 3, 4, 4, 8, 1, 1 } ;
static const int enc_width [] = { 8, 8, 16, 24, 32, 0, 0, 0, 0 } ;
static Enc enc_of_sub (int sub) { for (int e = 0 ; e < E_COUNT ; e++) if (enc_sub [e] == sub) return (Enc) e ; return E_COUNT ; }

struct Settings { bool norm_f = true, norm_d = true, clip = false, scale_fir = false, scale_ifw = false, toggle = false ; } ;	// toggle: every setting is first set to the opposite value, then to the wanted one
static std::string set_str (const Settings &s) { char b [64] ; snprintf (b, sizeof (b), "nf%d nd%d clip%d fir%d ifw%d tg%d", s.norm_f, s.norm_d, s.clip, s.scale_fir, s.scale_ifw, s.toggle) ; return b ; }
static void apply (SNDFILE *f, const Settings &s)
{	if (s.toggle)
	{	sf_command (f, SFC_SET_NORM_FLOAT, nullptr, !s.norm_f) ; sf_command (f, SFC_SET_NORM_DOUBLE, nullptr, !s.norm_d) ; sf_command (f, SFC_SET_CLIPPING, nullptr, !s.clip) ;
		sf_command (f, SFC_SET_SCALE_FLOAT_INT_READ, nullptr, !s.scale_fir) ; sf_command (f, SFC_SET_SCALE_INT_FLOAT_WRITE, nullptr, !s.scale_ifw) ;
		sf_command (f, SFC_SET_SCALE_FLOAT_INT_READ, nullptr, s.scale_fir) ; sf_command (f, SFC_SET_SCALE_INT_FLOAT_WRITE, nullptr, s.scale_ifw) ;
	}
	sf_command (f, SFC_SET_NORM_FLOAT, nullptr, s.norm_f) ; sf_command (f, SFC_SET_NORM_DOUBLE, nullptr, s.norm_d) ;
	sf_command (f, SFC_SET_CLIPPING, nullptr, s.clip) ;
	if (s.scale_fir) sf_command (f, SFC_SET_SCALE_FLOAT_INT_READ, nullptr, SF_TRUE) ;
	if (s.scale_ifw) sf_command (f, SFC_SET_SCALE_INT_FLOAT_WRITE, nullptr, SF_TRUE) ;
}

// G.711 decode (ITU formulas; C20 checks them against the library exhaustively)
static int ulaw_dec (int code) { int u = ~code & 0xff ; int mag = ((((u & 15) << 3) + 0x84) << ((u >> 4) & 7)) - 0x84 ; return (u & 0x80) ? -mag : mag ; }
static int alaw_dec (int code) { int a = code ^ 0x55 ; int t = (a & 15) << 4 ; int seg = (a & 0x70) >> 4 ; if (seg == 0) t += 8 ; else if (seg == 1) t += 0x108 ; else { t += 0x108 ; t <<= seg - 1 ; } return (a & 0x80) ? t : -t ; }

// ---- stored sample <-> bytes
static void put_int (uint8_t *p, Enc e, bool be, int64_t v)
{	if (e == E_S8) { p [0] = (uint8_t) v ; return ; }
	if (e == E_U8) { p [0] = (uint8_t) (v + 128) ; return ; }
	int n = enc_bytes [e] ; for (int k = 0 ; k < n ; k++) p [be ? n - 1 - k : k] = (uint8_t) ((uint64_t) v >> (8 * k)) ;
}
static int64_t get_int (const uint8_t *p, Enc e, bool be)
{	if (e == E_S8) return (int8_t) p [0] ; if (e == E_U8) return (int) p [0] - 128 ;
	int n = enc_bytes [e] ; uint64_t u = 0 ; for (int k = 0 ; k < n ; k++) u |= (uint64_t) p [be ? n - 1 - k : k] << (8 * k) ;
	int sh = 64 - 8 * n ; return (int64_t) (u << sh) >> sh ;
}
static void put_f32 (uint8_t *p, bool be, float f) { uint32_t b ; memcpy (&b, &f, 4) ; for (int k = 0 ; k < 4 ; k++) p [be ? 3 - k : k] = (uint8_t) (b >> (8 * k)) ; }
static void put_f64 (uint8_t *p, bool be, double d) { uint64_t b ; memcpy (&b, &d, 8) ; for (int k = 0 ; k < 8 ; k++) p [be ? 7 - k : k] = (uint8_t) (b >> (8 * k)) ; }

// ---- model: value delivered to the caller when a stored sample is read as type T (returns false = not asserted)
// stored: integer value v of width w (ints, and G.711 as a 16-bit decoded value), or a float/double x
struct Val { short s ; int i ; float f ; double d ; } ;
static bool model_read_int (int w, int64_t v, int T, const Settings &st, Val &out)
{	switch (T)
	{	case T_SHORT : out.s = (short) (w <= 16 ? (int64_t) ((uint64_t) v << (16 - w)) : v >> (w - 16)) ; return true ;
		case T_INT : out.i = (int) ((uint64_t) v << (32 - w)) ; return true ;
		case T_FLOAT :
			if (st.norm_f) out.f = (float) v * (float) (1.0 / (double) (1ll << (w - 1))) ; else out.f = (float) v ;
			return true ;
		default :
			if (st.norm_d) out.d = (double) v * (1.0 / (double) (1ll << (w - 1))) ; else out.d = (double) v ;
			return true ;
	}
}
template <class F> static bool model_read_flt (F x, int T, const Settings &st, Val &out, bool is_double)
{	switch (T)
	{	case T_FLOAT : out.f = (float) x ; return true ;
		case T_DOUBLE : out.d = (double) x ; return true ;
		case T_SHORT :
			if (st.scale_fir) return false ;	// validity predicate only, checked separately
			if (st.clip) { if (x > (F) 32767.0) { out.s = 32767 ; return true ; } if (x < (F) -32768.0) { out.s = -32768 ; return true ; } }
			else if (!(x >= (F) -32768.0 && x <= (F) 32767.0)) return false ;	// out of range without clipping: nothing documented
			out.s = (short) (is_double ? lrint ((double) x) : lrintf ((float) x)) ; return true ;
		default :
			if (st.scale_fir) return false ;
			if (st.clip) { if (x >= (F) 2147483647.0) { out.i = 0x7fffffff ; return true ; } if (x <= (F) -2147483648.0) { out.i = (int) 0x80000000 ; return true ; } }
			else if (!(x > (F) -2147483648.0 && x < (F) 2147483520.0)) return false ;
			out.i = (int) (is_double ? lrint ((double) x) : lrintf ((float) x)) ; return true ;
	}
}

// ---- model: stored integer when value x of type T is written to w-bit PCM; up to two accepted answers
static int model_write_int (int w, int T, const void *px, const Settings &st, int64_t acc [2])
{	int64_t MAXV = (1ll << (w - 1)) - 1, MINV = -(1ll << (w - 1)) ;
	if (T == T_SHORT) { int64_t s = *(const short *) px ; acc [0] = w >= 16 ? (int64_t) ((uint64_t) s << (w - 16)) : s >> (16 - w) ; return 1 ; }
	if (T == T_INT) { int64_t v = *(const int *) px ; acc [0] = v >> (32 - w) ; return 1 ; }
	bool norm = T == T_FLOAT ? st.norm_f : st.norm_d ;
	auto sat = [&] (double r) -> int64_t { return r >= (double) MAXV ? MAXV : r <= (double) MINV ? MINV : (int64_t) r ; } ;
	if (T == T_FLOAT)
	{	float x = *(const float *) px ;
		if (!st.clip)
		{	float S = norm ? (float) (double) MAXV : 1.0f ; float p = x * S ;
			if (!(p >= (float) MINV && p <= (float) MAXV)) return 0 ;
			if (w == 32 && !(p > -2147483648.0f && p < 2147483648.0f)) return 0 ;
			acc [0] = (int64_t) lrintf (p) ; if (acc [0] > MAXV || acc [0] < MINV) return 0 ; return 1 ;
		}
		float S1 = norm ? (float) (double) MAXV : 1.0f, S2 = norm ? (float) (double) (MAXV + 1) : 1.0f ;
		acc [0] = sat ((double) rintf (x * S1)) ; acc [1] = sat ((double) rintf (x * S2)) ;
		// at the positive edge the library clips on ">= MAX" of the scaled value before rounding
		if ((double) (x * S2) >= (double) MAXV) acc [1] = MAXV ;
		if ((double) (x * S1) >= (double) MAXV) acc [0] = MAXV ;
		return 2 ;
	}
	double x = *(const double *) px ;
	if (!st.clip)
	{	double S = norm ? (double) MAXV : 1.0 ; double p = x * S ;
		if (!(p >= (double) MINV && p <= (double) MAXV)) return 0 ;
		acc [0] = (int64_t) lrint (p) ; return 1 ;
	}
	double S1 = norm ? (double) MAXV : 1.0, S2 = norm ? (double) (MAXV + 1) : 1.0 ;
	acc [0] = sat (rint (x * S1)) ; acc [1] = sat (rint (x * S2)) ;
	if (x * S2 >= (double) MAXV) acc [1] = MAXV ;
	if (x * S1 >= (double) MAXV) acc [0] = MAXV ;
	return 2 ;
}

// ---- value lists
static std::vector<int64_t> int_codes (int w, uint64_t seed, size_t nrand)
{	std::vector<int64_t> v ; int64_t MAXV = (1ll << (w - 1)) - 1, MINV = -(1ll << (w - 1)) ;
	if (w <= 16) { for (int64_t x = MINV ; x <= MAXV ; x++) v.push_back (x) ; return v ; }
	for (int64_t x : { (int64_t) 0, (int64_t) 1, (int64_t) -1, MAXV, MINV, MAXV - 1, MINV + 1 }) v.push_back (x) ;
	for (int k = 1 ; k < w - 1 ; k++) for (int64_t d : { -1, 0, 1 }) { v.push_back ((1ll << k) + d) ; v.push_back (-(1ll << k) + d) ; }
	Rng r (seed) ; for (size_t i = 0 ; i < nrand ; i++) v.push_back (r.range (MINV, MAXV)) ;
	return v ;
}
static std::vector<double> unit_inputs (int w, bool clip, bool norm, uint64_t seed, size_t nrand, bool as_float)
{	std::vector<double> v ; double S = (double) ((1ll << (w - 1)) - 1) ;
	if (norm)
	{	for (double x : { 0.0, 1.0 - 1.0 / 16777216.0, -1.0, 0.5, -0.5, 0.25, 1.0 / S, -1.0 / S, 0.5 / S, -0.5 / S, 1.5 / S, 2.5 / S, -1.5 / S, -2.5 / S, 0.999, -0.999, 0.9999999, 1.0 / 3, -2.0 / 3 }) v.push_back (x) ;
		for (int k = 0 ; k < 40 ; k++) { v.push_back ((k + 0.5) / S) ; v.push_back (-(k + 0.5) / S) ; v.push_back ((double) k / S) ; }
		Rng r (seed) ; for (size_t i = 0 ; i < nrand ; i++) v.push_back (r.unit () * 2 - 1) ;
		if (clip) { for (double x : { 1.0, 1.0000001, -1.0000001, 1.5, -1.5, 3.999, -4.0, 1e9, -1e9, 1.0 + 1.0 / S, -1.0 - 1.0 / S, (S - 0.5) / (S + 1), (S + 0.5) / (S + 1) }) v.push_back (x) ;
			for (size_t i = 0 ; i < nrand / 4 ; i++) v.push_back (r.unit () * 8 - 4) ; }
	}
	else
	{	double M = S ; for (double x : { 0.0, 1.0, -1.0, 0.5, -0.5, 1.5, -1.5, 2.5, M, -M - 1, M - 0.5, -M - 0.5 + 1, M / 2, 100.49, -100.51 }) v.push_back (x) ;
		Rng r (seed) ; for (size_t i = 0 ; i < nrand ; i++) v.push_back ((r.unit () * 2 - 1) * M) ;
		if (clip) for (double x : { M + 1, M + 0.5, -M - 2, M * 4, -M * 4, 1e12, -1e12 }) v.push_back (x) ;
	}
	if (as_float) for (auto &x : v) x = (double) (float) x ;
	return v ;
}

static SNDFILE *open_raw (MemFile &m, int mode, Enc e, bool be, int ch = 1)
{	SF_INFO i ; memset (&i, 0, sizeof (i)) ; i.format = SF_FORMAT_RAW | enc_sub [e] | (enc_bytes [e] > 1 ? (be ? SF_ENDIAN_BIG : SF_ENDIAN_LITTLE) : 0) ; i.channels = ch ; i.samplerate = 44100 ;
	return open_mem (m, mode, &i) ;
}

static std::string val_hex (int T, const Val &v) { switch (T) { case T_SHORT : return hex (&v.s, 2) ; case T_INT : return hex (&v.i, 4) ; case T_FLOAT : return hex (&v.f, 4) ; default : return hex (&v.d, 8) ; } }

// ================================================================ (a) read kernels
static void task_read (Enc e, bool be, int T, const Settings &st)
{	Case c ; c.set ("task", "read") ; c.set ("enc", enc_name [e]) ; c.seti ("be", be) ; c.set ("t", stype_name [T]) ; c.set ("settings", set_str (st)) ;
	bool isint = e <= E_32, g711 = e >= E_ULAW ;
	std::vector<int64_t> codes ; std::vector<double> fl ;
	size_t nr = ctx.thorough ? (1u << 20) : (1u << 14) ;
	if (isint) codes = int_codes (enc_width [e], 1234 + e, nr) ;
	else if (g711) for (int k = 0 ; k < 256 ; k++) codes.push_back (k) ;
	else
	{	// float / double file contents: unit range, integer-valued range, ties, out of range (clip), tiny
		for (double x : { 0.0, 1.0, -1.0, 0.5, -0.5, 1.5, 2.5, -1.5, -2.5, 0.49999, 32767.0, -32768.0, 32767.5, 32766.5, -32768.5, 40000.0, -40000.0, 2147483520.0, -2147483648.0, 3e9, -3e9, 1e-30, 123456.5, 0.999 }) fl.push_back (x) ;
		Rng r (99 + e) ; for (size_t i = 0 ; i < nr ; i++) { int k = (int) r.below (4) ; double x = r.unit () * 2 - 1 ; fl.push_back (k == 0 ? x : k == 1 ? x * 32768 : k == 2 ? x * 2147483648.0 : x * 70000) ; }
		if (e == E_F32) for (auto &x : fl) x = (double) (float) x ;
	}
	size_t n = isint || g711 ? codes.size () : fl.size () ;
	MemFile m ; m.data.resize (n * enc_bytes [e]) ;
	for (size_t i = 0 ; i < n ; i++)
	{	uint8_t *p = m.data.data () + i * enc_bytes [e] ;
		if (isint) put_int (p, e, be, codes [i]) ; else if (g711) p [0] = (uint8_t) codes [i] ; else if (e == E_F32) put_f32 (p, be, (float) fl [i]) ; else put_f64 (p, be, fl [i]) ;
	}
	SNDFILE *f = open_raw (m, SFM_READ, e, be) ;
	if (!f) { report (c, failr ("open_failed", sf_strerror (nullptr))) ; return ; }
	apply (f, st) ;
	int ts = stype_size (T) ; Block buf (n * ts) ;
	sf_count_t got = sf_read_t (f, T, buf.p, (sf_count_t) n) ; sf_close (f) ;
	if (got != (sf_count_t) n) { report (c, failr ("read_count", std::to_string ((long long) got))) ; return ; }
	long asserted = 0 ; double peak = 0 ; if (!isint && !g711) for (double x : fl) peak = std::max (peak, fabs (x)) ;
	long long prev_r = 0 ; double prev_x = 0 ; bool have_prev = false ;
	for (size_t i = 0 ; i < n ; i++)
	{	Val exp ; memset (&exp, 0, sizeof (exp)) ; bool ok ;
		if (isint) ok = model_read_int (enc_width [e], codes [i], T, st, exp) ;
		else if (g711) ok = model_read_int (16, e == E_ULAW ? ulaw_dec ((int) codes [i]) : alaw_dec ((int) codes [i]), T, st, exp) ;
		else if (e == E_F32) ok = model_read_flt<float> ((float) fl [i], T, st, exp, false) ;
		else ok = model_read_flt<double> (fl [i], T, st, exp, true) ;
		Val gotv ; memset (&gotv, 0, sizeof (gotv)) ;
		if (T == T_SHORT) gotv.s = ((short *) buf.p) [i] ; else if (T == T_INT) gotv.i = ((int *) buf.p) [i] ; else if (T == T_FLOAT) gotv.f = ((float *) buf.p) [i] ; else gotv.d = ((double *) buf.p) [i] ;
		if (ok)
		{	asserted ++ ;
			if (val_hex (T, gotv) != val_hex (T, exp))
			{	std::string src = isint || g711 ? std::to_string ((long long) codes [i]) : std::to_string (fl [i]) ;
				report (c, failr ("read_conversion", std::string (enc_name [e]) + (be ? "/BE" : "/LE") + " stored " + src + " read as " + stype_name [T] + " [" + set_str (st) + "] gives " + val_hex (T, gotv) + " model " + val_hex (T, exp))) ;
				return ;
			}
		}
		else if (st.scale_fir && !isint && !g711 && (T == T_SHORT || T == T_INT))
		{	// auto-scale: no formula documented - validity predicate: bounded, the peak maps to MAX or MAX-1, order preserving
			long long r = T == T_SHORT ? gotv.s : gotv.i ; long long MAXV = T == T_SHORT ? 32767 : 2147483647ll ;
			if (fabs (fl [i]) == peak && peak > 0 && !((double) llabs (r) >= (double) MAXV * (1.0 - 1e-4) && llabs (r) <= MAXV))
			{	report (c, failr ("scale_float_int_read_peak", std::string (enc_name [e]) + " peak sample " + std::to_string (fl [i]) + " read as " + std::to_string (r))) ; return ; }
			if (have_prev && ((fl [i] > prev_x && r < prev_r - 1) || (fl [i] < prev_x && r > prev_r + 1)))
			{	report (c, failr ("scale_float_int_read_order", std::string (enc_name [e]) + " " + std::to_string (prev_x) + "->" + std::to_string (prev_r) + " but " + std::to_string (fl [i]) + "->" + std::to_string (r))) ; return ; }
			prev_r = r ; prev_x = fl [i] ; have_prev = true ; asserted ++ ;
		}
	}
	ctx.ev.evaluations += (long long) n ; ctx.ev.extra ["distinct_counted"] += asserted ;
	ctx.ev.classes [std::string ("read:") + enc_name [e] + "->" + stype_name [T]] ++ ;
	ctx.ev.extra ["kernel_setting_combinations"] ++ ;
}

// ================================================================ (b) write kernels
static void task_write (Enc e, bool be, int T, const Settings &st)
{	Case c ; c.set ("task", "write") ; c.set ("enc", enc_name [e]) ; c.seti ("be", be) ; c.set ("t", stype_name [T]) ; c.set ("settings", set_str (st)) ;
	bool isint = e <= E_32 ; int w = isint ? enc_width [e] : 0 ; int ts = stype_size (T) ;
	size_t nr = ctx.thorough ? (1u << 20) : (1u << 13) ;
	// inputs
	std::vector<uint8_t> in ;
	auto push = [&] (const void *p) { in.insert (in.end (), (const uint8_t *) p, (const uint8_t *) p + ts) ; } ;
	if (T == T_SHORT) for (int x = -32768 ; x <= 32767 ; x++) { short s = (short) x ; push (&s) ; }
	else if (T == T_INT) for (int64_t x : int_codes (32, 777 + e, nr)) { int v = (int) x ; push (&v) ; }
	else
	{	bool norm = T == T_FLOAT ? st.norm_f : st.norm_d ;
		std::vector<double> v ;
		if (isint) v = unit_inputs (w, st.clip, norm, 4242 + e * 7 + T, nr, T == T_FLOAT) ;
		else { v = unit_inputs (16, false, true, 31 + e, nr, T == T_FLOAT) ; for (double x : { 1e30, -1e30, 1e-30, 3.0e9, 65504.0 }) v.push_back (T == T_FLOAT ? (double) (float) x : x) ; }
		for (double x : v) { if (T == T_FLOAT) { float fx = (float) x ; push (&fx) ; } else push (&x) ; }
	}
	size_t n = in.size () / ts ;
	MemFile m ; SNDFILE *f = open_raw (m, SFM_WRITE, e, be) ;
	if (!f) { report (c, failr ("open_failed", sf_strerror (nullptr))) ; return ; }
	apply (f, st) ;
	Block src (in.size ()) ; memcpy (src.p, in.data (), in.size ()) ;
	sf_count_t wn = sf_write_t (f, T, src.p, (sf_count_t) n) ; sf_close (f) ;
	if (wn != (sf_count_t) n || m.data.size () != n * enc_bytes [e]) { report (c, failr ("write_count", std::to_string ((long long) wn) + " bytes " + std::to_string (m.data.size ()))) ; return ; }
	long asserted = 0 ;
	for (size_t i = 0 ; i < n ; i++)
	{	const uint8_t *px = in.data () + i * ts ; const uint8_t *pf = m.data.data () + i * enc_bytes [e] ;
		std::string inhex = hex (px, ts) ;
		if (isint)
		{	int64_t acc [2] = { 0, 0 } ; int na = model_write_int (w, T, px, st, acc) ;
			if (!na) continue ;
			int64_t got = get_int (pf, e, be) ; asserted ++ ;
			if (got != acc [0] && !(na == 2 && got == acc [1]))
			{	report (c, failr ("write_conversion", std::string (stype_name [T]) + " " + inhex + " written to " + enc_name [e] + (be ? "/BE" : "/LE") + " [" + set_str (st) + "] stored " + std::to_string ((long long) got) + " model " + std::to_string ((long long) acc [0]) + (na == 2 ? " or " + std::to_string ((long long) acc [1]) : ""))) ; return ; }
		}
		else
		{	// float / double encodings
			uint8_t expb [8] ;
			double scale_s = st.scale_ifw ? 1.0 / 32768.0 : 1.0, scale_i = st.scale_ifw ? 1.0 / 2147483648.0 : 1.0 ;
			if (e == E_F32)
			{	float v ;
				if (T == T_SHORT) v = (float) scale_s * (float) *(const short *) px ; else if (T == T_INT) v = (float) scale_i * (float) *(const int *) px ;
				else if (T == T_FLOAT) v = *(const float *) px ; else v = (float) *(const double *) px ;
				put_f32 (expb, be, v) ;
			}
			else
			{	double v ;
				if (T == T_SHORT) v = scale_s * (double) *(const short *) px ; else if (T == T_INT) v = scale_i * (double) *(const int *) px ;
				else if (T == T_FLOAT) v = (double) *(const float *) px ; else v = *(const double *) px ;
				put_f64 (expb, be, v) ;
			}
			asserted ++ ;
			if (memcmp (expb, pf, enc_bytes [e]) != 0)
			{	report (c, failr ("write_conversion", std::string (stype_name [T]) + " " + inhex + " written to " + enc_name [e] + (be ? "/BE" : "/LE") + " [" + set_str (st) + "] stored " + hex (pf, enc_bytes [e]) + " model " + hex (expb, enc_bytes [e]))) ; return ; }
		}
	}
	ctx.ev.evaluations += (long long) n ; ctx.ev.extra ["distinct_counted"] += asserted ;
	ctx.ev.classes [std::string ("write:") + stype_name [T] + "->" + enc_name [e]] ++ ;
	ctx.ev.extra ["kernel_setting_combinations"] ++ ;
}

// ================================================================ (c) every container / endian option: boundary set, 4 x 4
static void task_container (const FmtEntry &fe)
{	Enc e = enc_of_sub (fe.format & SF_FORMAT_SUBMASK) ; if (e == E_COUNT || !is_granular (fe.format) || !fe.vio_ok) return ;
	Case c ; c.set ("task", "container") ; c.set ("fmt", format_str (fe.format)) ; c.seti ("format", fe.format) ;
	Settings st ; bool isint = e <= E_32 ; int w = isint ? enc_width [e] : 16 ;
	for (int wt = 0 ; wt < 4 ; wt++)
	{	// inputs in the caller's type
		std::vector<uint8_t> in ; int ts = stype_size (wt) ;
		auto push = [&] (const void *p) { in.insert (in.end (), (const uint8_t *) p, (const uint8_t *) p + ts) ; } ;
		if (wt == T_SHORT) for (int x : { 0, 1, -1, 32767, -32768, 255, 256, -256, -257, 12345, -12345, 128, -129 }) { short s = (short) x ; push (&s) ; }
		else if (wt == T_INT) for (int64_t x : { 0ll, 1ll, -1ll, 2147483647ll, -2147483648ll, 65535ll, 65536ll, -65536ll, -65537ll, 16777215ll, 16777216ll, -16777217ll, 305419896ll, -305419896ll }) { int v = (int) x ; push (&v) ; }
		else for (double x : unit_inputs (isint ? w : 16, false, true, 5, 8, wt == T_FLOAT)) { if (wt == T_FLOAT) { float fx = (float) x ; push (&fx) ; } else push (&x) ; }
		size_t n = in.size () / ts ;
		MemFile m ; OpenSpec s ; s.format = fe.format ; s.ch = 1 ; s.rate = 44100 ;
		if (std::find (fe.channels.begin (), fe.channels.end (), 1) == fe.channels.end ()) s.ch = fe.channels.front () ;
		n -= n % s.ch ;
		SNDFILE *f = open_write_mem (m, s) ; if (!f) { report (c, failr ("open_failed", sf_strerror (nullptr))) ; return ; }
		Block src (n * ts) ; memcpy (src.p, in.data (), n * ts) ;
		if (sf_write_t (f, wt, src.p, (sf_count_t) n) != (sf_count_t) n) { sf_close (f) ; report (c, failr ("write_count", "")) ; return ; }
		sf_close (f) ;
		for (int rt = 0 ; rt < 4 ; rt++)
		{	MemFile r ; r.data = m.data ; SF_INFO ri ; SNDFILE *g = open_read_mem (r, s, &ri) ; if (!g) { report (c, failr ("reopen_failed", sf_strerror (nullptr))) ; return ; }
			int rs = stype_size (rt) ; Block out (n * rs) ;
			if (sf_read_t (g, rt, out.p, (sf_count_t) n) != (sf_count_t) n) { sf_close (g) ; report (c, failr ("read_count", "")) ; return ; }
			sf_close (g) ;
			for (size_t i = 0 ; i < n ; i++)
			{	const uint8_t *px = in.data () + i * ts ; Val exp ; memset (&exp, 0, sizeof (exp)) ; bool ok = false ; bool two = false ; Val exp2 ; memset (&exp2, 0, sizeof (exp2)) ;
				if (isint)
				{	int64_t acc [2] ; int na = model_write_int (w, wt, px, st, acc) ; if (!na) continue ;
					ok = model_read_int (w, acc [0], rt, st, exp) ; if (na == 2) two = model_read_int (w, acc [1], rt, st, exp2) ;
				}
				else if (e == E_F32)
				{	float v = wt == T_SHORT ? (float) *(const short *) px : wt == T_INT ? (float) *(const int *) px : wt == T_FLOAT ? *(const float *) px : (float) *(const double *) px ;
					ok = model_read_flt<float> (v, rt, st, exp, false) ;
				}
				else if (e == E_F64)
				{	double v = wt == T_SHORT ? (double) *(const short *) px : wt == T_INT ? (double) *(const int *) px : wt == T_FLOAT ? (double) *(const float *) px : *(const double *) px ;
					ok = model_read_flt<double> (v, rt, st, exp, true) ;
				}
				else continue ;	// G.711 containers: C20 owns the code mapping; nothing more to assert here
				if (!ok) continue ;
				Val gotv ; memset (&gotv, 0, sizeof (gotv)) ;
				if (rt == T_SHORT) gotv.s = ((short *) out.p) [i] ; else if (rt == T_INT) gotv.i = ((int *) out.p) [i] ; else if (rt == T_FLOAT) gotv.f = ((float *) out.p) [i] ; else gotv.d = ((double *) out.p) [i] ;
				ctx.ev.evaluations ++ ; ctx.ev.extra ["distinct_counted"] ++ ;
				if (val_hex (rt, gotv) != val_hex (rt, exp) && !(two && val_hex (rt, gotv) == val_hex (rt, exp2)))
				{	report (c, failr ("container_conversion", format_str (fe.format) + " " + stype_name [wt] + " " + hex (px, ts) + " read back as " + stype_name [rt] + " " + val_hex (rt, gotv) + " model " + val_hex (rt, exp))) ; return ; }
			}
		}
	}
	ctx.ev.classes [std::string ("container:") + major_name (fe.format)] ++ ;
}

// ---- replay: tasks are re-run as a whole
static Enc enc_from (const std::string &s) { for (int e = 0 ; e < E_COUNT ; e++) if (s == enc_name [e]) return (Enc) e ; return E_COUNT ; }
static Settings set_from (const std::string &s) { Settings st ; int a, b, c, d, e ; int g = 0 ; if (sscanf (s.c_str (), "nf%d nd%d clip%d fir%d ifw%d tg%d", &a, &b, &c, &d, &e, &g) >= 5) { st.norm_f = a ; st.norm_d = b ; st.clip = c ; st.scale_fir = d ; st.scale_ifw = e ; st.toggle = g ; } return st ; }
static Result run_case (const Case &c)
{	g_failed = false ; ctx.have_failure = false ;
	std::string task = c.gets ("task") ;
	if (task == "read") task_read (enc_from (c.gets ("enc")), c.geti ("be") != 0, stype_from (c.gets ("t")), set_from (c.gets ("settings"))) ;
	else if (task == "write") task_write (enc_from (c.gets ("enc")), c.geti ("be") != 0, stype_from (c.gets ("t")), set_from (c.gets ("settings"))) ;
	else if (task == "g711_overrange")
	{	// witness of a listed finding: float input beyond +-1.0 written to u-law / A-law must saturate (never generated in the search)
		Enc e = enc_from (c.gets ("enc")) ; MemFile m ; SNDFILE *f = open_raw (m, SFM_WRITE, e, false) ; Settings st ; st.clip = true ; apply (f, st) ;
		float x [4] = { 1.5f, -3.0f, 2.0f, -1.25f } ; sf_write_float (f, x, 4) ; sf_close (f) ;
		int top = e == E_ULAW ? ulaw_dec (0x80) : alaw_dec (0xaa) ;
		for (int i = 0 ; i < 4 && m.data.size () == 4 ; i++)
		{	int d = e == E_ULAW ? ulaw_dec (m.data [i]) : alaw_dec (m.data [i]) ;
			if (abs (d) != top || (d < 0) != (x [i] < 0)) return failr ("g711_overrange_not_saturated", std::to_string (x [i]) + " -> " + std::to_string (d)) ;
		}
	}
	else if (task == "container") { for (auto &fe : catalogue ()) if (fe.format == (int) c.geti ("format")) task_container (fe) ; }
	if (ctx.have_failure) return ctx.failing_res ;
	return Result () ;
}

int main (int argc, char **argv)
{	init_io () ;
	ctx.property = "C02" ;
	ctx.parse (argc, argv) ;
	scratch_dir () ;
	if (!ctx.replay.empty ()) { int rc = replay_main (ctx, run_case) ; rm_scratch () ; return rc ; }
	// self-test of the model against exact arithmetic (|model - exact| <= 1 LSB; equality when exactly representable)
	{	Settings st ; int64_t acc [2] ; float x = 0.5f ; if (model_write_int (16, T_FLOAT, &x, st, acc) != 1 || llabs (acc [0] - 16384) > 1) { fprintf (outf (), "SELFTEST write model\n") ; return 2 ; }
		double y = -1.0 ; if (model_write_int (24, T_DOUBLE, &y, st, acc) != 1 || acc [0] != -8388607) { fprintf (outf (), "SELFTEST write model 24\n") ; return 2 ; }
		Val v ; model_read_int (8, -128, T_FLOAT, st, v) ; if (v.f != -1.0f) { fprintf (outf (), "SELFTEST read model\n") ; return 2 ; }
		model_read_int (24, 0x123456, T_SHORT, st, v) ; if (v.s != 0x1234) { fprintf (outf (), "SELFTEST read model 24\n") ; return 2 ; }
	}
	long long worker = ctx.opti ("worker", 0), workers = ctx.opti ("workers", 1) ; long ti = 0 ;
	auto mine = [&] () { return (ti ++ % workers) == worker ; } ;
	for (int e = 0 ; e < E_COUNT && !g_failed ; e++) for (int be = 0 ; be < (enc_bytes [e] > 1 ? 2 : 1) && !g_failed ; be++) for (int T = 0 ; T < 4 && !g_failed ; T++)
	{	// read: settings that can matter for this (encoding, type): norm for float/double targets, clip + scale for float files read as ints
		std::vector<Settings> sets ;
		for (int nf = 0 ; nf < 2 ; nf++) for (int nd = 0 ; nd < 2 ; nd++) for (int cl = 0 ; cl < 2 ; cl++) for (int fir = 0 ; fir < 2 ; fir++)
		{	Settings s ; s.norm_f = nf ; s.norm_d = nd ; s.clip = cl ; s.scale_fir = fir ;
			if (fir && !(e == E_F32 || e == E_F64)) continue ;	// the command only exists for float files
			sets.push_back (s) ;
		}
		for (auto &s : sets) for (int tg = 0 ; tg < 2 ; tg++) if (mine ()) { Settings s2 = s ; s2.toggle = tg ; task_read ((Enc) e, be != 0, T, s2) ; }
		if (e >= E_ULAW) continue ;	// G.711 write side: C20
		std::vector<Settings> wsets ;
		for (int nf = 0 ; nf < 2 ; nf++) for (int nd = 0 ; nd < 2 ; nd++) for (int cl = 0 ; cl < 2 ; cl++) for (int ifw = 0 ; ifw < 2 ; ifw++)
		{	Settings s ; s.norm_f = nf ; s.norm_d = nd ; s.clip = cl ; s.scale_ifw = ifw ;
			if (ifw && !(e == E_F32 || e == E_F64)) continue ;
			wsets.push_back (s) ;
		}
		for (auto &s : wsets) for (int tg = 0 ; tg < 2 ; tg++) if (mine ()) { Settings s2 = s ; s2.toggle = tg ; task_write ((Enc) e, be != 0, T, s2) ; }
		ctx.flush () ;
	}
	for (auto &fe : catalogue ()) { if (g_failed) break ; if (mine ()) task_container (fe) ; }
	ctx.ev.samples.push_back ("task=read enc=PCM_24 be=1 t=float settings=nf1 nd1 clip0 fir0 ifw0 (boundary set + random 24-bit codes)") ;
	ctx.ev.samples.push_back ("task=write enc=PCM_16 be=0 t=double settings=nf1 nd1 clip1 fir0 ifw0 (ties k+0.5, +-1, just out of range, random [-4,4])") ;
	ctx.ev.samples.push_back ("task=container fmt=AIFF/PCM_24/FILE (boundary set, 4 write types x 4 read types)") ;
	ctx.flush (true) ;
	rm_scratch () ;
	if (g_failed) { fprintf (outf (), "FAIL %s kind=%s detail=%s\n", ctx.path ("failing.case").c_str (), ctx.failing_res.kind.c_str (), ctx.failing_res.detail.c_str ()) ; return 1 ; }
	fprintf (outf (), "OK evaluations=%lld\n", ctx.ev.evaluations) ;
	return 0 ;
}
