// C01 - lossless write/read round trip is bit exact.
// generator: catalogue entry x channels x sample type (lossless for the entry) x N x sample style x
//            route (MemVIO / path) x write partition;  oracle: memcmp of the first N frames.
#include "vf_rc.hpp"
using namespace vf ;

static Ctx ctx ;

// which API sample types are lossless on this codec, and how many low bits must be zero
struct Lossless { int t ; int width ; int fmode ; } ;
static std::vector<Lossless> lossless_types (const Codec *c)
{	std::vector<Lossless> v ;
	if (c->is_float)
	{	if (c->subtype == SF_FORMAT_FLOAT) { v.push_back ({ T_FLOAT, 0, 0 }) ; v.push_back ({ T_FLOAT, 0, 1 }) ; v.push_back ({ T_DOUBLE, 0, 2 }) ; }
		else { v.push_back ({ T_FLOAT, 0, 0 }) ; v.push_back ({ T_FLOAT, 0, 1 }) ; v.push_back ({ T_DOUBLE, 0, 0 }) ; v.push_back ({ T_DOUBLE, 0, 1 }) ; }
		return v ;
	}
	if (c->width > 0)
	{	v.push_back ({ T_SHORT, c->width < 16 ? c->width : 16, 0 }) ;
		v.push_back ({ T_INT, c->width, 0 }) ;
	}
	return v ;
}

static std::vector<const FmtEntry *> &domain ()
{	static std::vector<const FmtEntry *> d ;
	if (d.empty ()) for (auto &e : catalogue ()) if (!lossless_types (e.codec).empty ()) d.push_back (&e) ;
	return d ;
}

static Case gen_case ()
{	auto &dom = domain () ;
	const FmtEntry *e = pickEntry (dom) ;
	Case c ;
	c.set ("fmt", format_str (e->format)) ;
	c.seti ("format", e->format) ;
	int ch = pickChannels (e) ;
	c.seti ("ch", ch) ;
	auto lt = lossless_types (e->codec) ;
	auto l = *rc::gen::elementOf (lt) ;
	c.set ("t", stype_name [l.t]) ;
	c.seti ("width", l.width) ;
	c.seti ("fmode", l.fmode) ;
	int B = e->codec->block ;
	int sub = e->format & SF_FORMAT_SUBMASK ; int maj = e->format & SF_FORMAT_TYPEMASK ;
	if (maj == SF_FORMAT_PAF && sub == SF_FORMAT_PCM_24) B = 10 ;
	if (maj == SF_FORMAT_SDS) B = sub == SF_FORMAT_PCM_S8 ? 60 : sub == SF_FORMAT_PCM_16 ? 40 : 30 ;
	if (sub >= SF_FORMAT_ALAC_16 && sub <= SF_FORMAT_ALAC_32) B = 4096 ;
	long long maxN = (ctx.thorough ? 262144 : 24576) / ch ; if (maxN < 8) maxN = 8 ;
	c.seti ("n", *lengthGen (B, maxN)) ;
	c.set ("style", style_name [*rangeOf<int> (0, ST_COUNT - 1)]) ;
	c.seti ("seed", (long long) *seedGen ()) ;
	bool path = maj == SF_FORMAT_SD2 || *rangeOf<int> (0, 6) == 0 ;
	c.set ("route", path ? "path" : "mem") ;
	c.seti ("split", *rangeOf<int> (0, 1)) ;
	c.seti ("rate", *rc::gen::element (8000, 44100, 48000, 22050)) ;
	return c ;
}

static int style_from (const std::string &s) { for (int i = 0 ; i < ST_COUNT ; i++) if (s == style_name [i]) return i ; return 0 ; }

static Case sig_of (const Case &c)
{	int format = (int) c.geti ("format") ;
	Case s ;
	s.set ("container", major_name (format)) ;
	const Codec *cd = codec_of (format) ; s.set ("codec", cd ? cd->name : "?") ;
	s.set ("endian", endian_name (format)) ;
	return s ;
}

static Result run_case (const Case &c)
{	Result r ;
	int format = (int) c.geti ("format") ; int ch = (int) c.geti ("ch") ; int t = stype_from (c.gets ("t")) ;
	long long N = c.geti ("n") ; int width = (int) c.geti ("width") ; int fmode = (int) c.geti ("fmode") ;
	int style = style_from (c.gets ("style")) ; uint64_t seed = (uint64_t) c.geti ("seed") ;
	bool path = c.gets ("route") == "path" ; bool split = c.geti ("split") != 0 ;
	const Codec *cd = codec_of (format) ;
	r.sig = sig_of (c) ;
	size_t items = (size_t) N * (size_t) ch ; int ts = stype_size (t) ;
	Block src (items * ts) ;
	gen_samples (src.p, t, items, width ? width : 32, style, seed, fmode) ;
	// non-trivial: N >= 1 and at least two distinct sample values
	bool two = false ;
	for (size_t i = 1 ; i < items && !two ; i++) if (memcmp (src.p, src.p + i * ts, ts) != 0) two = true ;
	r.nontrivial = N >= 1 && two ;
	std::string nclass = N == 0 ? "n0" : N < 16 ? "n<16" : N < 4096 ? "n<4096" : "n>=4096" ;
	r.sig.set ("nclass", nclass) ;
	if (cd->granular) r.sig.seti ("databytes", (long long) items * cd->bytes) ;
	r.dhash = fnv_str (c.gets ("fmt") + "|" + std::to_string (ch) + "|" + c.gets ("t") + "|" + std::to_string (N) + "|" + c.gets ("style") + "|" + std::to_string (split) + "|" + std::to_string (fmode) + "|" + c.gets ("route")) ;
	r.classes = { std::string ("container:") + major_name (format), std::string ("codec:") + cd->name, std::string ("t:") + stype_name [t],
		"nclass:" + nclass, std::string ("route:") + c.gets ("route"), std::string ("split:") + (split ? "1" : "0"),
		std::string ("ch:") + (ch == 1 ? "1" : ch == 2 ? "2" : ch <= 8 ? "3-8" : ">8"), std::string ("endian:") + endian_name (format),
		std::string ("style:") + c.gets ("style") } ;

	SF_INFO wi ; memset (&wi, 0, sizeof (wi)) ;
	wi.format = format ; wi.channels = ch ; wi.samplerate = (int) c.geti ("rate", 44100) ;
	MemFile mem ; std::string fname ;
	SNDFILE *f ;
	if (path)
	{	fname = scratch_dir () + "/c01_" + std::to_string ((long) getpid ()) + ".dat" ;
		unlink (fname.c_str ()) ;
		f = sf_open (fname.c_str (), SFM_WRITE, &wi) ;
	}
	else f = open_mem (mem, SFM_WRITE, &wi) ;
	auto fail = [&] (const char *kind, const std::string &d) { Result x = r ; x.ok = false ; x.kind = kind ; x.detail = d ; if (path) unlink (fname.c_str ()) ; return x ; } ;
	if (!f) return fail ("open_write_failed", sf_strerror (nullptr)) ;
	// writes
	std::vector<long long> part ;
	if (split) { Rng pr (seed ^ 0x5151) ; part = make_partition (pr, N, cd->block > 1 ? cd->block : 64, ch, ts) ; }
	else if (N > 0) part.push_back (N) ;
	size_t off = 0 ;
	for (long long p : part)
	{	long long fr = p < 0 ? -p : p ;
		// each call gets its own exact-size block so an over-read is an ASan report
		Block b ((size_t) fr * ch * ts) ; memcpy (b.p, src.p + off * ts, b.n) ;
		sf_count_t w = p < 0 ? sf_write_t (f, t, b.p, fr * ch) : sf_writef_t (f, t, b.p, fr) ;
		sf_count_t want = p < 0 ? fr * ch : fr ;
		if (w != want) { std::string d = "write returned " + std::to_string (w) + " want " + std::to_string (want) + " err=" + sf_err_text (f) ; sf_close (f) ; return fail ("short_write", d) ; }
		if (sf_error (f) != 0) { std::string d = sf_err_text (f) ; sf_close (f) ; return fail ("error_after_write", d) ; }
		off += (size_t) fr * ch ;
	}
	int inv = sf_verif_check_invariants (f) ;
	if (inv) { sf_close (f) ; return fail ("invariant", "mask " + std::to_string (inv)) ; }
	int cr = sf_close (f) ;
	if (cr != 0) return fail ("close_failed", std::to_string (cr)) ;
	// re-open
	SF_INFO ri ; memset (&ri, 0, sizeof (ri)) ;
	if ((format & SF_FORMAT_TYPEMASK) == SF_FORMAT_RAW) { ri.format = format ; ri.channels = ch ; ri.samplerate = wi.samplerate ; }
	SNDFILE *g = path ? sf_open (fname.c_str (), SFM_READ, &ri) : open_mem (mem, SFM_READ, &ri) ;
	// SD2 keeps its parameters in a resource fork and the data fork is headerless: if the audio bytes themselves look like
	// another container (e.g. start with 01 04 = MPC2K) the library's format detection takes that (listed finding)
	if ((format & SF_FORMAT_TYPEMASK) == SF_FORMAT_SD2 && path)
	{	std::vector<uint8_t> fork ; read_file (fname, fork) ; MemFile probe ; probe.data = fork ; SF_INFO pi ; memset (&pi, 0, sizeof (pi)) ;
		SNDFILE *pf = open_mem (probe, SFM_READ, &pi) ; if (pf) { sf_close (pf) ; r.sig.set ("sd2_datafork_looks_like", major_name (pi.format)) ; }
	}
	if (!g) return fail ("reopen_failed", sf_strerror (nullptr)) ;
	if (ri.channels != ch) { sf_close (g) ; return fail ("channels_changed", std::to_string (ri.channels)) ; }
	if (ri.frames < N) { std::string d = "frames " + std::to_string ((long long) ri.frames) + " < N " + std::to_string (N) ; sf_close (g) ; return fail ("frames_short", d) ; }
	Block dst (items * ts) ; memset (dst.p, 0xA5, dst.n) ;
	sf_count_t got = sf_readf_t (g, t, dst.p, N) ;
	if (got != N) { std::string d = "readf returned " + std::to_string ((long long) got) + " of " + std::to_string (N) + " err=" + sf_err_text (g) ; sf_close (g) ; return fail ("short_read", d) ; }
	sf_close (g) ;
	if (path) unlink (fname.c_str ()) ;
	if (items && memcmp (src.p, dst.p, items * ts) != 0)
	{	size_t i = 0 ; while (i < items && memcmp (src.p + i * ts, dst.p + i * ts, ts) == 0) i ++ ;
		return fail ("data_mismatch", "first diff at item " + std::to_string (i) + " wrote " + hex (src.p + i * ts, ts) + " read " + hex (dst.p + i * ts, ts)) ;
	}
	return r ;
}

int main (int argc, char **argv)
{	init_io () ;
	ctx.property = "C01" ;
	ctx.parse (argc, argv) ;
	scratch_dir () ;
	int rc = rc_main (ctx, gen_case, run_case, sig_of) ;
	rm_scratch () ;
	return rc ;
}
