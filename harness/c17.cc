// C17 - sf_command never touches more than datasize bytes and queries are pure.
// Complete enumeration of the grid  command id (every SFC_* of sndfile.h + undefined ids) x handle state
// (NULL, read, write, rdwr on WAV PCM16 / WAV float / WAVEX / RF64 / AIFF / CAF / RAW, with and without stored
// metadata) x datasize (0..natural size+8, plus large sizes) x data (NULL | heap block of exactly datasize bytes)
// x fill (zeros, 0xFF, random, plausible, lying).
// Each group (command x handle configuration) runs in a forked child that announces every cell before executing
// it, so a sanitizer abort is attributed to one cell and the enumeration continues behind it.
#include "vf_file.hpp"
#include <sys/wait.h>
#include <stddef.h>
using namespace vf ;

static Ctx ctx ;

enum { K_QUERY = 0, K_SET = 1, K_OTHER = 2 } ;
struct Cmd { int id ; const char *name ; int nat ; int kind ; bool str ; } ;
#define C(x, nat, kind, str) { x, #x, (int) (nat), kind, str }
static const Cmd cmds [] = {
	C (SFC_GET_LIB_VERSION, 32, K_QUERY, true), C (SFC_GET_LOG_INFO, 256, K_QUERY, true), C (SFC_GET_CURRENT_SF_INFO, sizeof (SF_INFO), K_QUERY, false),
	C (SFC_GET_NORM_DOUBLE, 4, K_QUERY, false), C (SFC_GET_NORM_FLOAT, 4, K_QUERY, false), C (SFC_SET_NORM_DOUBLE, 4, K_SET, false), C (SFC_SET_NORM_FLOAT, 4, K_SET, false),
	C (SFC_SET_SCALE_FLOAT_INT_READ, 4, K_SET, false), C (SFC_SET_SCALE_INT_FLOAT_WRITE, 4, K_SET, false),
	C (SFC_GET_SIMPLE_FORMAT_COUNT, 4, K_QUERY, false), C (SFC_GET_SIMPLE_FORMAT, sizeof (SF_FORMAT_INFO), K_QUERY, false), C (SFC_GET_FORMAT_INFO, sizeof (SF_FORMAT_INFO), K_QUERY, false),
	C (SFC_GET_FORMAT_MAJOR_COUNT, 4, K_QUERY, false), C (SFC_GET_FORMAT_MAJOR, sizeof (SF_FORMAT_INFO), K_QUERY, false),
	C (SFC_GET_FORMAT_SUBTYPE_COUNT, 4, K_QUERY, false), C (SFC_GET_FORMAT_SUBTYPE, sizeof (SF_FORMAT_INFO), K_QUERY, false),
	C (SFC_CALC_SIGNAL_MAX, 8, K_QUERY, false), C (SFC_CALC_NORM_SIGNAL_MAX, 8, K_QUERY, false), C (SFC_CALC_MAX_ALL_CHANNELS, 16, K_QUERY, false), C (SFC_CALC_NORM_MAX_ALL_CHANNELS, 16, K_QUERY, false),
	C (SFC_GET_SIGNAL_MAX, 8, K_QUERY, false), C (SFC_GET_MAX_ALL_CHANNELS, 16, K_QUERY, false),
	C (SFC_SET_ADD_PEAK_CHUNK, 4, K_SET, false), C (SFC_UPDATE_HEADER_NOW, 4, K_OTHER, false), C (SFC_SET_UPDATE_HEADER_AUTO, 4, K_SET, false),
	C (SFC_FILE_TRUNCATE, 8, K_OTHER, false), C (SFC_SET_RAW_START_OFFSET, 8, K_SET, false),
	C (SFC_SET_DITHER_ON_WRITE, sizeof (SF_DITHER_INFO), K_SET, false), C (SFC_SET_DITHER_ON_READ, sizeof (SF_DITHER_INFO), K_SET, false),
	C (SFC_GET_DITHER_INFO_COUNT, 4, K_QUERY, false), C (SFC_GET_DITHER_INFO, sizeof (SF_DITHER_INFO), K_QUERY, false),
	C (SFC_GET_EMBED_FILE_INFO, sizeof (SF_EMBED_FILE_INFO), K_QUERY, false), C (SFC_SET_CLIPPING, 4, K_SET, false), C (SFC_GET_CLIPPING, 4, K_QUERY, false),
	C (SFC_GET_CUE_COUNT, 4, K_QUERY, false), C (SFC_GET_CUE, sizeof (SF_CUES), K_QUERY, false), C (SFC_SET_CUE, sizeof (SF_CUES), K_SET, false),
	C (SFC_GET_INSTRUMENT, sizeof (SF_INSTRUMENT), K_QUERY, false), C (SFC_SET_INSTRUMENT, sizeof (SF_INSTRUMENT), K_SET, false), C (SFC_GET_LOOP_INFO, sizeof (SF_LOOP_INFO), K_QUERY, false),
	C (SFC_GET_BROADCAST_INFO, sizeof (SF_BROADCAST_INFO), K_QUERY, false), C (SFC_SET_BROADCAST_INFO, sizeof (SF_BROADCAST_INFO), K_SET, false),
	C (SFC_GET_CHANNEL_MAP_INFO, 8, K_QUERY, false), C (SFC_SET_CHANNEL_MAP_INFO, 8, K_SET, false), C (SFC_RAW_DATA_NEEDS_ENDSWAP, 4, K_QUERY, false),
	C (SFC_WAVEX_SET_AMBISONIC, 4, K_SET, false), C (SFC_WAVEX_GET_AMBISONIC, 4, K_QUERY, false), C (SFC_RF64_AUTO_DOWNGRADE, 4, K_SET, false),
	C (SFC_SET_VBR_ENCODING_QUALITY, 8, K_SET, false), C (SFC_SET_COMPRESSION_LEVEL, 8, K_SET, false), C (SFC_SET_OGG_PAGE_LATENCY_MS, 8, K_SET, false), C (SFC_SET_OGG_PAGE_LATENCY, 8, K_SET, false),
	C (SFC_GET_OGG_STREAM_SERIALNO, 4, K_QUERY, false), C (SFC_GET_BITRATE_MODE, 4, K_QUERY, false), C (SFC_SET_BITRATE_MODE, 4, K_SET, false),
	C (SFC_SET_CART_INFO, sizeof (SF_CART_INFO), K_SET, false), C (SFC_GET_CART_INFO, sizeof (SF_CART_INFO), K_QUERY, false),
	C (SFC_SET_ORIGINAL_SAMPLERATE, 4, K_SET, false), C (SFC_GET_ORIGINAL_SAMPLERATE, 4, K_QUERY, false), C (SFC_TEST_IEEE_FLOAT_REPLACE, 4, K_SET, false),
	C (SFC_SET_ADD_HEADER_PAD_CHUNK, 4, K_SET, false), C (SFC_SET_ADD_DITHER_ON_WRITE, 4, K_SET, false), C (SFC_SET_ADD_DITHER_ON_READ, 4, K_SET, false),
	{ 0, "UNDEF_0", 16, K_OTHER, false }, { 0x0FFF, "UNDEF_0x0FFF", 16, K_OTHER, false }, { 0x1003, "UNDEF_0x1003", 16, K_OTHER, false }, { 0x7FFFFFFF, "UNDEF_0x7FFFFFFF", 16, K_OTHER, false },
} ;
static const int NCMD = sizeof (cmds) / sizeof (cmds [0]) ;

struct FmtDef { int format ; const char *name ; } ;
static const FmtDef fmts [] = {
	{ SF_FORMAT_WAV | SF_FORMAT_PCM_16, "WAV16" }, { SF_FORMAT_WAV | SF_FORMAT_FLOAT, "WAVFLOAT" }, { SF_FORMAT_WAVEX | SF_FORMAT_PCM_24, "WAVEX" },
	{ SF_FORMAT_RF64 | SF_FORMAT_PCM_16, "RF64" }, { SF_FORMAT_AIFF | SF_FORMAT_PCM_16, "AIFF" }, { SF_FORMAT_CAF | SF_FORMAT_PCM_16, "CAF" }, { SF_FORMAT_RAW | SF_FORMAT_PCM_16, "RAW" } } ;
static const int NFMT = 7 ;
enum { H_NULL = 0, H_READ, H_WRITE, H_RDWR } ;
static const char *hname [] = { "null", "read", "write", "rdwr" } ;

static void set_metadata (SNDFILE *f)
{	sf_set_string (f, SF_STR_TITLE, "title text") ; sf_set_string (f, SF_STR_ARTIST, "artist") ; sf_set_string (f, SF_STR_COMMENT, "a comment") ;
	SF_BROADCAST_INFO b ; memset (&b, 0, sizeof (b)) ; strcpy (b.description, "desc") ; strcpy (b.originator, "orig") ; strcpy (b.coding_history, "A=PCM,F=44100\r\n") ; b.coding_history_size = (uint32_t) strlen (b.coding_history) ;
	sf_command (f, SFC_SET_BROADCAST_INFO, &b, sizeof (b)) ;
	SF_CART_INFO ct ; memset (&ct, 0, sizeof (ct)) ; strcpy (ct.version, "0101") ; strcpy (ct.title, "cart title") ; strcpy (ct.tag_text, "tag text\r\n") ; ct.tag_text_size = (uint32_t) strlen (ct.tag_text) ;
	sf_command (f, SFC_SET_CART_INFO, &ct, sizeof (ct)) ;
	SF_CUES cu ; memset (&cu, 0, sizeof (cu)) ; cu.cue_count = 3 ; for (int i = 0 ; i < 3 ; i++) { cu.cue_points [i].indx = i + 1 ; cu.cue_points [i].sample_offset = 10 * i ; cu.cue_points [i].fcc_chunk = 0x61746164 ; }
	sf_command (f, SFC_SET_CUE, &cu, sizeof (cu)) ;
	SF_INSTRUMENT in ; memset (&in, 0, sizeof (in)) ; in.basenote = 60 ; in.velocity_hi = 127 ; in.key_hi = 127 ; in.loop_count = 1 ; in.loops [0].mode = SF_LOOP_FORWARD ; in.loops [0].start = 4 ; in.loops [0].end = 40 ;
	sf_command (f, SFC_SET_INSTRUMENT, &in, sizeof (in)) ;
	int map [2] = { SF_CHANNEL_MAP_LEFT, SF_CHANNEL_MAP_RIGHT } ;
	sf_command (f, SFC_SET_CHANNEL_MAP_INFO, map, sizeof (map)) ;
}

struct HandleCfg { int hk ; int fi ; bool meta ; int variant = 0 ; } ;	// variant: non-default settings + non-zero read position (query commands)
static std::vector<uint8_t> base_file [NFMT] [2] ;

static void build_base_files ()
{	for (int i = 0 ; i < NFMT ; i++) for (int m = 0 ; m < 2 ; m++)
	{	MemFile mf ; OpenSpec s ; s.format = fmts [i].format ; s.ch = 2 ; s.rate = 44100 ;
		SNDFILE *f = open_write_mem (mf, s) ; if (!f) continue ;
		if (m) set_metadata (f) ;
		short buf [128] ; for (int k = 0 ; k < 128 ; k++) buf [k] = (short) ((k & 1) ? 10000 + (k * 517) % 20000 : (k * 517) % 9000 - 4500) ;	// channel 1 is the louder one: per-channel peak data differs from the overall maximum
		sf_writef_short (f, buf, 64) ;
		sf_close (f) ;
		base_file [i] [m] = mf.data ;
	}
}

static SNDFILE *open_handle_base (const HandleCfg &h, MemFile &mf) ;
static SNDFILE *open_handle (const HandleCfg &h, MemFile &mf)
{	SNDFILE *f = open_handle_base (h, mf) ;
	if (f && h.variant)
	{	// the settings a query must not disturb are made pairwise different, and the read position is moved off zero
		if (h.variant == 1) sf_command (f, SFC_SET_NORM_DOUBLE, nullptr, SF_FALSE) ;
		if (h.variant == 2) sf_command (f, SFC_SET_NORM_FLOAT, nullptr, SF_FALSE) ;
		if (h.variant == 3) { sf_command (f, SFC_SET_CLIPPING, nullptr, SF_TRUE) ; sf_command (f, SFC_SET_NORM_DOUBLE, nullptr, SF_FALSE) ; sf_command (f, SFC_SET_NORM_FLOAT, nullptr, SF_FALSE) ; }
		if (h.hk == H_READ || h.hk == H_RDWR) { short tmp [20] ; sf_readf_short (f, tmp, 10) ; }
		if (h.hk == H_WRITE) { short tmp [6] = { 9, 8, 7, 6, 5, 4 } ; sf_writef_short (f, tmp, 3) ; }
	}
	return f ;
}
static SNDFILE *open_handle_base (const HandleCfg &h, MemFile &mf)
{	OpenSpec s ; s.format = fmts [h.fi].format ; s.ch = 2 ; s.rate = 44100 ;
	if (h.hk == H_NULL) return nullptr ;
	if (h.hk == H_WRITE)
	{	SNDFILE *f = open_write_mem (mf, s) ; if (f && h.meta) set_metadata (f) ;
		return f ;
	}
	mf.data = base_file [h.fi] [h.meta] ;
	if (h.hk == H_READ) { SF_INFO ri ; return open_read_mem (mf, s, &ri) ; }
	SF_INFO ri ; memset (&ri, 0, sizeof (ri)) ;
	if ((s.format & SF_FORMAT_TYPEMASK) == SF_FORMAT_RAW) { ri.format = s.format ; ri.channels = 2 ; ri.samplerate = 44100 ; }
	return open_mem (mf, SFM_RDWR, &ri) ;
}

// state digest of everything a query must leave alone
static uint64_t digest (SNDFILE *f, MemFile &mf)
{	uint64_t h = 1469598103934665603ull ;
	sf_count_t rd = 0, wr = 0 ; sf_verif_get_positions (f, &rd, &wr) ;
	h = fnv1a (&rd, sizeof (rd), h) ; h = fnv1a (&wr, sizeof (wr), h) ;
	SF_INFO ci ; memset (&ci, 0, sizeof (ci)) ; sf_command (f, SFC_GET_CURRENT_SF_INFO, &ci, sizeof (ci)) ; h = fnv1a (&ci, sizeof (ci), h) ;
	int v [4] = { sf_command (f, SFC_GET_NORM_FLOAT, nullptr, 0), sf_command (f, SFC_GET_NORM_DOUBLE, nullptr, 0), sf_command (f, SFC_GET_CLIPPING, nullptr, 0), sf_error (f) } ;
	h = fnv1a (v, sizeof (v) - sizeof (int), h) ;
	for (int s = SF_STR_FIRST ; s <= SF_STR_LAST ; s++) { const char *p = sf_get_string (f, s) ; if (p) h = fnv1a (p, strlen (p) + 1, h) ; else h = fnv1a ("\xff", 1, h) ; }
	static SF_BROADCAST_INFO b ; memset (&b, 0, sizeof (b)) ; int r1 = sf_command (f, SFC_GET_BROADCAST_INFO, &b, sizeof (b)) ; h = fnv1a (&r1, 4, h) ; if (r1) h = fnv1a (&b, sizeof (b), h) ;
	static SF_CART_INFO c ; memset (&c, 0, sizeof (c)) ; int r2 = sf_command (f, SFC_GET_CART_INFO, &c, sizeof (c)) ; h = fnv1a (&r2, 4, h) ; if (r2) h = fnv1a (&c, sizeof (c), h) ;
	static SF_CUES cu ; memset (&cu, 0, sizeof (cu)) ; int r3 = sf_command (f, SFC_GET_CUE, &cu, sizeof (cu)) ; h = fnv1a (&r3, 4, h) ; if (r3) h = fnv1a (&cu, sizeof (cu), h) ;
	SF_INSTRUMENT in ; memset (&in, 0, sizeof (in)) ; int r4 = sf_command (f, SFC_GET_INSTRUMENT, &in, sizeof (in)) ; h = fnv1a (&r4, 4, h) ; if (r4) h = fnv1a (&in, sizeof (in), h) ;
	int map [2] = { 0, 0 } ; int r5 = sf_command (f, SFC_GET_CHANNEL_MAP_INFO, map, sizeof (map)) ; h = fnv1a (&r5, 4, h) ; if (r5) h = fnv1a (map, sizeof (map), h) ;
	double pk [2] = { -1, -1 } ; int r6 = sf_command (f, SFC_GET_MAX_ALL_CHANNELS, pk, sizeof (pk)) ; h = fnv1a (&r6, 4, h) ; if (r6) h = fnv1a (pk, sizeof (pk), h) ;	// stored per-channel peaks (PEAK chunk)
	h = fnv1a (mf.data.data (), mf.data.size (), h) ;
	return h ;
}

struct Cell { int datasize ; int data_kind ; /* 0 NULL, 1..5 heap with fill */ } ;
static const char *fill_name [] = { "NULL", "zeros", "ff", "random", "plausible", "lying" } ;

static std::vector<int> sizes_for (const Cmd &c)
{	std::set<int> s ;
	int nat = c.nat ;
	if (nat <= 1024) for (int k = 0 ; k <= nat + 8 ; k++) s.insert (k) ;
	else
	{	for (int k = 0 ; k <= 64 ; k++) s.insert (k) ;
		for (int k = nat - 16 ; k <= nat + 8 ; k++) s.insert (k) ;
		if (c.id == SFC_GET_CUE || c.id == SFC_SET_CUE)
		{	for (int n = 0 ; n <= 100 ; n++) for (int d = -2 ; d <= 5 ; d++) { int v = 4 + n * (int) sizeof (SF_CUE_POINT) + d ; if (v >= 0) s.insert (v) ; } }
		else
			for (int k = 0 ; k <= nat + 8 ; k++) s.insert (k) ;	// cart, broadcast: every size
	}
	s.insert (4096) ; s.insert (16385) ; s.insert (65536) ;
	return std::vector<int> (s.begin (), s.end ()) ;
}

static std::vector<Cell> cells_for (const Cmd &c)
{	std::vector<Cell> v ;
	for (int sz : sizes_for (c)) for (int dk = 0 ; dk <= 5 ; dk++)
	{	if (dk >= 2 && sz == 0) continue ;
		if (dk >= 2 && c.nat > 1024 && sz > 64 && (sz < c.nat - 16 || sz > c.nat + 8) && dk != 4 && dk != 5) continue ;	// big structs: zeros + plausible + lying only between the edges
		v.push_back ({ sz, dk }) ;
	}
	return v ;
}

static void fill_block (uint8_t *p, int n, const Cmd &c, int dk, uint64_t seed)
{	if (dk == 1) memset (p, 0, n) ;
	else if (dk == 2) memset (p, 0xff, n) ;
	else if (dk == 3) { Rng r (seed) ; for (int i = 0 ; i < n ; i++) p [i] = (uint8_t) r.next () ; }
	else
	{	memset (p, 0, n) ;
		bool lie = dk == 5 ;
		auto put32 = [&] (size_t off, uint32_t v) { if (off + 4 <= (size_t) n) memcpy (p + off, &v, 4) ; } ;
		switch (c.id)
		{	case SFC_SET_CUE : case SFC_GET_CUE :
				put32 (0, lie ? 1000000u : (n >= 4 ? (uint32_t) ((n - 4) / sizeof (SF_CUE_POINT)) : 0)) ; break ;
			case SFC_SET_BROADCAST_INFO : case SFC_GET_BROADCAST_INFO :
			{	size_t off = offsetof (SF_BROADCAST_INFO, coding_history_size) ; size_t ho = offsetof (SF_BROADCAST_INFO, coding_history) ;
				uint32_t len = (size_t) n > ho ? (uint32_t) ((size_t) n - ho) : 0 ;
				for (size_t i = ho ; i < (size_t) n ; i++) p [i] = (i % 17 == 16) ? '\r' : 'h' ;
				if (n > 0 && (size_t) n > ho) p [n - 1] = '\n' ;
				put32 (off, lie ? len + 100000u : len) ; break ;
			}
			case SFC_SET_CART_INFO : case SFC_GET_CART_INFO :
			{	size_t off = offsetof (SF_CART_INFO, tag_text_size) ; size_t ho = offsetof (SF_CART_INFO, tag_text) ;
				uint32_t len = (size_t) n > ho ? (uint32_t) ((size_t) n - ho) : 0 ;
				for (size_t i = ho ; i < (size_t) n ; i++) p [i] = 't' ;
				put32 (off, lie ? len + 100000u : len) ; break ;
			}
			case SFC_SET_INSTRUMENT : { size_t off = offsetof (SF_INSTRUMENT, loop_count) ; put32 (off, lie ? 1000u : 2u) ; break ; }
			case SFC_SET_CHANNEL_MAP_INFO : for (int i = 0 ; i + 4 <= n ; i += 4) put32 (i, lie ? 0x7fffffffu : (uint32_t) (SF_CHANNEL_MAP_LEFT + (i / 4) % 2)) ; break ;
			case SFC_GET_SIMPLE_FORMAT : case SFC_GET_FORMAT_MAJOR : case SFC_GET_FORMAT_SUBTYPE : put32 (0, lie ? 0x7fffffffu : 1u) ; break ;
			case SFC_GET_FORMAT_INFO : put32 (0, lie ? 0x7fff0000u : (uint32_t) SF_FORMAT_WAV) ; break ;
			case SFC_FILE_TRUNCATE : put32 (0, lie ? 0x7fffffffu : 10u) ; break ;
			default : if (lie) memset (p, 0x7f, n) ; break ;
		}
	}
}

// executes one cell; returns "" or "kind|detail"
static std::string run_cell (const Cmd &c, const HandleCfg &h, const Cell &cell, SNDFILE *&f, MemFile &mf, bool &nontrivial)
{	if (h.hk != H_NULL && (f == nullptr || c.kind != K_QUERY))
	{	if (f) { sf_close (f) ; f = nullptr ; }
		mf = MemFile () ;
		f = open_handle (h, mf) ;
		if (!f) return "" ;	// this configuration cannot be opened (e.g. RDWR unsupported): nothing to exercise
	}
	if (h.hk == H_NULL && h.meta)
	{	// NULL handle right after a failed open: the process-wide parse log and error are populated (a few hundred bytes of log)
		static const char hdr [] = "RIFF\x88\x01\x00\x00WAVEfmt \x10\x00\x00\x00\x77\x77\x02\x00\x44\xac\x00\x00\x10\xb1\x02\x00\x04\x00\x10\x00LIST\x20\x00\x00\x00INFOINAM\x08\x00\x00\x00title  \x00" ;
		MemFile bad ; bad.data.assign (400, 0x41) ; memcpy (bad.data.data (), hdr, sizeof (hdr) - 1) ;
		SF_INFO bi ; memset (&bi, 0, sizeof (bi)) ; SNDFILE *g = open_mem (bad, SFM_READ, &bi) ; if (g) sf_close (g) ;
	}
	int n = cell.datasize ;
	uint8_t *blk = nullptr ;
	if (cell.data_kind) { blk = (uint8_t *) malloc (n ? n : 1) ; fill_block (blk, n, c, cell.data_kind, (uint64_t) c.id * 131 + n) ; if (n == 0) { /* zero-size request: 1-byte block, logical size 0 */ } }
	nontrivial = cell.data_kind != 0 && n != c.nat ;
	uint64_t d0 = 0 ;
	bool check_pure = c.kind == K_QUERY && f != nullptr ;
	if (check_pure) d0 = digest (f, mf) ;
	// for a 0-byte request give the library a block with no addressable byte at all
	uint8_t *arg = blk ;
	uint8_t *zero_blk = nullptr ;
	if (blk && n == 0) { zero_blk = (uint8_t *) malloc (16) ; arg = zero_blk + 16 ; }	// one past the end: any access is an ASan report
	int rc = sf_command (f, c.id, arg, n) ;
	(void) rc ;
	std::string res ;
	if (c.str && blk && n >= 1)
	{	if (memchr (blk, 0, (size_t) n) == nullptr) res = std::string ("string_not_terminated|") + c.name + " datasize " + std::to_string (n) ;
	}
	if (res.empty () && check_pure)
	{	uint64_t d1 = digest (f, mf) ;
		if (d1 != d0) res = std::string ("query_changed_state|") + c.name + " datasize " + std::to_string (n) + " data " + fill_name [cell.data_kind] ;
	}
	if (res.empty () && f) { int inv = sf_verif_check_invariants (f) ; if (inv) res = "invariant|mask " + std::to_string (inv) ; }
	// state-changing commands: close inside the same cell, so that damage done by the command (e.g. a header
	// writer overrunning on what was set) is attributed to this cell and not to the next one
	if (c.kind != K_QUERY && f)
	{	// write a little audio first so the container's close path runs with the metadata the command stored
		if (h.hk != H_READ) { short z [8] = { 1, 2, 3, 4, 5, 6, 7, 8 } ; sf_writef_short (f, z, 4) ; }
		sf_close (f) ; f = nullptr ;
	}
	free (blk) ; free (zero_blk) ;
	return res ;
}

struct Group { int ci ; HandleCfg h ; } ;

static Case cell_case (const Group &g, const Cell &cell)
{	Case c ; const Cmd &cm = cmds [g.ci] ;
	c.set ("cmd", cm.name) ; c.seti ("cmdid", cm.id) ; c.set ("handle", hname [g.h.hk]) ;
	c.set ("format", g.h.hk == H_NULL ? "-" : fmts [g.h.fi].name) ; c.seti ("fi", g.h.fi) ; c.seti ("meta", g.h.meta) ;
	c.seti ("variant", g.h.variant) ;
	c.seti ("datasize", cell.datasize) ; c.set ("data", fill_name [cell.data_kind]) ; c.seti ("dk", cell.data_kind) ; c.seti ("ci", g.ci) ; c.seti ("hk", g.h.hk) ;
	c.set ("size_rel", cell.datasize < cm.nat ? "lt" : cell.datasize == cm.nat ? "eq" : "gt") ;
	return c ;
}

// run cells [from, end) of a group in a child; returns index of the crashing cell or -1; failures reported through `fails`
static long run_group_child (const Group &g, const std::vector<Cell> &cells, long from, std::vector<std::pair<long, std::string>> &fails, long &done, long &nt)
{	int pfd [2] ; if (pipe (pfd) != 0) return -2 ;
	fflush (nullptr) ;
	pid_t pid = fork () ;
	if (pid == 0)
	{	close (pfd [0]) ;
		SNDFILE *f = nullptr ; MemFile mf ;
		char line [600] ;
		for (long i = from ; i < (long) cells.size () ; i++)
		{	int len = snprintf (line, sizeof (line), "S %ld\n", i) ; if (write (pfd [1], line, len) < 0) _exit (3) ;
			bool ntv = false ;
			std::string r = run_cell (cmds [g.ci], g.h, cells [i], f, mf, ntv) ;
			len = snprintf (line, sizeof (line), "R %ld %d %s\n", i, ntv ? 1 : 0, r.substr (0, 500).c_str ()) ; if (write (pfd [1], line, len) < 0) _exit (3) ;
		}
		if (f) sf_close (f) ;
		_exit (0) ;
	}
	close (pfd [1]) ;
	FILE *in = fdopen (pfd [0], "r") ;
	char line [700] ; long started = -1, finished = -1 ;
	while (fgets (line, sizeof (line), in))
	{	if (line [0] == 'S') started = atol (line + 2) ;
		else if (line [0] == 'R')
		{	long idx ; int ntv ; int pos = 0 ;
			sscanf (line + 2, "%ld %d %n", &idx, &ntv, &pos) ;
			finished = idx ; done ++ ; if (ntv) nt ++ ;
			std::string rest = line + 2 + pos ; while (!rest.empty () && (rest.back () == '\n')) rest.pop_back () ;
			if (!rest.empty ()) fails.push_back ({ idx, rest }) ;
		}
	}
	fclose (in) ;
	int st = 0 ; waitpid (pid, &st, 0) ;
	if (WIFEXITED (st) && WEXITSTATUS (st) == 0) return -1 ;
	(void) finished ;
	return started ;
}

static Result replay_cell (const Case &c)
{	// in-process single cell (a crash aborts the replay process; the driver interprets that)
	Group g ; g.ci = (int) c.geti ("ci") ; g.h.hk = (int) c.geti ("hk") ; g.h.fi = (int) c.geti ("fi") ; g.h.meta = c.geti ("meta") != 0 ; g.h.variant = (int) c.geti ("variant", 0) ;
	Cell cell { (int) c.geti ("datasize"), (int) c.geti ("dk") } ;
	SNDFILE *f = nullptr ; MemFile mf ; bool ntv = false ;
	std::string r = run_cell (cmds [g.ci], g.h, cell, f, mf, ntv) ;
	if (f) sf_close (f) ;
	Result res ; res.nontrivial = ntv ;
	if (!r.empty ()) { auto p = r.find ('|') ; res.ok = false ; res.kind = r.substr (0, p) ; res.detail = p == std::string::npos ? "" : r.substr (p + 1) ; }
	return res ;
}

int main (int argc, char **argv)
{	init_io () ;
	ctx.property = "C17" ;
	ctx.parse (argc, argv) ;
	scratch_dir () ;
	build_base_files () ;
	if (!ctx.replay.empty ()) { int rc = replay_main (ctx, replay_cell) ; rm_scratch () ; return rc ; }
	long long worker = ctx.opti ("worker", 0), workers = ctx.opti ("workers", 1) ;
	std::vector<Group> groups ;
	for (int ci = 0 ; ci < NCMD ; ci++)
	{	groups.push_back ({ ci, { H_NULL, 0, false } }) ;
		groups.push_back ({ ci, { H_NULL, 0, true } }) ;	// NULL handle after a failed open (global log and error populated)
		for (int hk = H_READ ; hk <= H_RDWR ; hk++) for (int fi = 0 ; fi < NFMT ; fi++) for (int m = 0 ; m < 2 ; m++)
		{	groups.push_back ({ ci, { hk, fi, m != 0 } }) ;
			if (cmds [ci].kind == K_QUERY && m == 1) for (int v = 1 ; v <= 3 ; v++) { Group g { ci, { hk, fi, true } } ; g.h.variant = v ; groups.push_back (g) ; }
		}
	}
	bool failed = false ; long gi = 0 ;
	for (auto &g : groups)
	{	if (gi ++ % workers != worker) continue ;
		if (ctx.over_budget ()) { ctx.ev.skipped_budget ++ ; continue ; }
		std::vector<Cell> cells = cells_for (cmds [g.ci]) ;
		long from = 0 ;
		while (from < (long) cells.size () && !failed)
		{	std::vector<std::pair<long, std::string>> fails ; long done = 0, nt = 0 ;
			long crashed = run_group_child (g, cells, from, fails, done, nt) ;
			ctx.ev.evaluations += done ; ctx.ev.extra ["distinct_counted"] += nt ;
			ctx.ev.classes [std::string ("handle:") + hname [g.h.hk]] += done ;
			ctx.ev.classes [std::string ("kind:") + (cmds [g.ci].kind == K_QUERY ? "query" : cmds [g.ci].kind == K_SET ? "set" : "other")] += done ;
			for (auto &fl : fails)
			{	Case c = cell_case (g, cells [fl.first]) ; auto p = fl.second.find ('|') ;
				Result r ; r.ok = false ; r.kind = fl.second.substr (0, p) ; r.detail = p == std::string::npos ? "" : fl.second.substr (p + 1) ;
				RunFn give = [&] (const Case &) { return r ; } ;
				if (execute (ctx, c, give, nullptr, false)) failed = true ;
			}
			if (crashed >= 0)
			{	Case c = cell_case (g, cells [crashed]) ;
				Result r ; r.ok = false ; r.kind = "crash" ; r.detail = "child died executing this cell (sanitizer report or signal); see stderr" ;
				RunFn give = [&] (const Case &) { return r ; } ;
				ctx.ev.evaluations ++ ;
				if (execute (ctx, c, give, nullptr, false)) failed = true ;
				from = crashed + 1 ;
			}
			else break ;
		}
		if (ctx.ev.samples.size () < 8) { Case c = cell_case (g, cells [cells.size () / 2]) ; ctx.ev.samples.push_back (c.str (' ')) ; }
		ctx.flush () ;
		if (failed) break ;
	}
	ctx.ev.extra ["commands_enumerated"] = worker == 0 ? NCMD : 0 ;
	ctx.flush (true) ;
	rm_scratch () ;
	if (failed) { fprintf (outf (), "FAIL %s kind=%s detail=%s\n", ctx.path ("failing.case").c_str (), ctx.failing_res.kind.c_str (), ctx.failing_res.detail.c_str ()) ; return 1 ; }
	fprintf (outf (), "OK evaluations=%lld\n", ctx.ev.evaluations) ;
	return 0 ;
}
