// vf_file.hpp - shared "write a file of any catalogue entry" helper, block-length and sample-rate tables
// (transcribed from the format definitions, see DESIGN.md Appendix A), used by C04-C07, C11, C14, C19.
#pragma once
#include "vf_rc.hpp"

namespace vf {

inline int style_from (const std::string &s) { for (int i = 0 ; i < ST_COUNT ; i++) if (s == style_name [i]) return i ; return 0 ; }

// all catalogue entries reachable through virtual I/O
inline std::vector<const FmtEntry *> &all_vio_entries ()
{	static std::vector<const FmtEntry *> d ;
	if (d.empty ()) for (auto &e : catalogue ()) if (e.vio_ok) d.push_back (&e) ;
	return d ;
}
inline std::vector<const FmtEntry *> &all_entries ()
{	static std::vector<const FmtEntry *> d ;
	if (d.empty ()) for (auto &e : catalogue ()) d.push_back (&e) ;
	return d ;
}

// sample-granular at container level: the data section is a plain array of fixed-width samples, so
// sf_read_raw / sf_write_raw and SFM_RDWR are meaningful (PAF-24 packs blocks, SDS packs 7-bit bytes)
inline bool is_granular (int format)
{	const Codec *c = codec_of (format) ; int maj = format & SF_FORMAT_TYPEMASK ;
	if (!c || !c->granular) return false ;
	if (maj == SF_FORMAT_SDS) return false ;
	if (maj == SF_FORMAT_PAF && c->subtype == SF_FORMAT_PCM_24) return false ;
	return true ;
}

// nominal codec block length in frames, for the length generator (edges) - not an oracle
inline int nominal_block (int format, int ch = 1, int rate = 44100)
{	int maj = format & SF_FORMAT_TYPEMASK, sub = format & SF_FORMAT_SUBMASK ;
	switch (sub)
	{	case SF_FORMAT_IMA_ADPCM :
			if (maj == SF_FORMAT_AIFF) return 64 ;
			{	long sr = (long) rate * ch ; int ba = sr < 12000 ? 256 : sr < 23000 ? 512 : sr < 44000 ? 1024 : 2048 ;
				return 2 * (ba - 4 * ch) / ch + 1 ; }
		case SF_FORMAT_MS_ADPCM :
			{	long sr = (long) rate * ch ; int ba = sr < 12000 ? 256 : sr < 23000 ? 512 : sr < 44000 ? 1024 : 2048 ;
				return 2 + 2 * (ba - 7 * ch) / ch ; }
		case SF_FORMAT_GSM610 : return (maj == SF_FORMAT_WAV || maj == SF_FORMAT_W64 || maj == SF_FORMAT_WAVEX || maj == SF_FORMAT_RF64) ? 320 : 160 ;
		case SF_FORMAT_G721_32 : case SF_FORMAT_G723_24 : case SF_FORMAT_G723_40 : return 120 ;
		case SF_FORMAT_NMS_ADPCM_16 : case SF_FORMAT_NMS_ADPCM_24 : case SF_FORMAT_NMS_ADPCM_32 : return 160 ;
		case SF_FORMAT_VOX_ADPCM : return 2 ;
		case SF_FORMAT_ALAC_16 : case SF_FORMAT_ALAC_20 : case SF_FORMAT_ALAC_24 : case SF_FORMAT_ALAC_32 : return 4096 ;
		case SF_FORMAT_PCM_24 : if (maj == SF_FORMAT_PAF) return 10 ; break ;
		default : break ;
	}
	if (maj == SF_FORMAT_SDS) return sub == SF_FORMAT_PCM_S8 ? 60 : sub == SF_FORMAT_PCM_16 ? 40 : 30 ;
	return 1 ;
}

// Oracle block length B for C04 (N <= F < N + B).  For WAV-like ADPCM the value is read from the fmt chunk of
// the produced file by an independent walker (0 = not found -> caller reports a catalogue error).
inline int oracle_block (int format, int ch, int rate, const std::vector<uint8_t> &file)
{	int maj = format & SF_FORMAT_TYPEMASK, sub = format & SF_FORMAT_SUBMASK ;
	if ((sub == SF_FORMAT_IMA_ADPCM && maj != SF_FORMAT_AIFF) || sub == SF_FORMAT_MS_ADPCM)
		return adpcm_samples_per_block (file) ;
	if (maj == SF_FORMAT_SDS) return 1 ;		// header carries the exact sample count
	if (sub >= SF_FORMAT_ALAC_16 && sub <= SF_FORMAT_ALAC_32) return 1 ;	// packet table carries the exact count
	if (sub >= SF_FORMAT_DWVW_12 && sub <= SF_FORMAT_DWVW_N) return maj == SF_FORMAT_RAW ? 13 : 1 ;
	return nominal_block (format, ch, rate) ;
}

// sample-rate model: returns true and sets `expect` when the container's field can represent `rate` exactly
inline bool rate_representable (int format, int ch, long long rate)
{	int maj = format & SF_FORMAT_TYPEMASK, sub = format & SF_FORMAT_SUBMASK ;
	switch (maj)
	{	case SF_FORMAT_WAV : case SF_FORMAT_WAVEX : case SF_FORMAT_RF64 : case SF_FORMAT_W64 : case SF_FORMAT_AIFF :
		case SF_FORMAT_AU : case SF_FORMAT_CAF : case SF_FORMAT_NIST : case SF_FORMAT_PAF : case SF_FORMAT_PVF :
		case SF_FORMAT_MAT4 : case SF_FORMAT_MAT5 : case SF_FORMAT_AVR : case SF_FORMAT_SD2 :
			return true ;
		case SF_FORMAT_SVX : case SF_FORMAT_MPC2K :
			return rate < 65536 ;
		case SF_FORMAT_IRCAM :
			return (long long) (float) rate == rate && rate < 2147483520ll ;
		case SF_FORMAT_HTK :
			return rate <= 10000000 && 10000000 % rate == 0 ;
		case SF_FORMAT_SDS :
			return rate <= 1000000000 && 1000000000 % rate == 0 && 1000000000 / rate < (1 << 21) ;
		case SF_FORMAT_VOC :
			if (sub == SF_FORMAT_PCM_U8 && ch == 1) return rate >= 3907 && rate <= 1000000 && 1000000 % rate == 0 ;
			if (sub == SF_FORMAT_PCM_U8) return false ;	// 16-bit divisor shared by both channels: no exactness claimed
			return true ;
		case SF_FORMAT_XI : return rate == 44100 ;
		case SF_FORMAT_WVE : return rate == 8000 ;
		case SF_FORMAT_RAW : return false ;	// headerless: the caller supplies the rate on re-open
		default : return false ;
	}
}

// does the container record the data byte order (so the endian bits must survive)?  Only asserted where the
// format definition has an explicit flag; everything else is "not recorded".
inline bool endian_recorded (int format)
{	int maj = format & SF_FORMAT_TYPEMASK ;
	switch (maj)
	{	case SF_FORMAT_CAF : case SF_FORMAT_NIST : case SF_FORMAT_PAF : case SF_FORMAT_IRCAM : case SF_FORMAT_MAT4 : case SF_FORMAT_MAT5 :
			return true ;
		default : return false ;
	}
}

inline rc::Gen<int> rateGen ()
{	return rc::gen::weightedOneOf<int> ({
		{ 6, rc::gen::element (8000, 11025, 16000, 22050, 44100, 48000, 96000, 192000) },
		{ 2, rc::gen::element (1, 2, 255, 256, 3907, 65535, 65536, 65537, 131072, 1000000, 16777216, 16777217, 10000000, 1073741823, 1073741824, 2147483647) },
		{ 2, rc::gen::map (rc::gen::pair (rangeOf<int> (0, 30), rangeOf<int> (0, 1 << 30)), [] (std::pair<int, int> p) { long long v = ((1ll << p.first) | (p.second & ((1ll << p.first) - 1))) ; return (int) (v < 1 ? 1 : v > 2147483647 ? 2147483647 : v) ; }) } }) ;
}

// Write items [0, items) of `src` (type t) in one call
struct OpenSpec { int format = 0 ; int ch = 1 ; int rate = 44100 ; long long frames_field = 0 ; } ;

inline SNDFILE *open_write_mem (MemFile &m, const OpenSpec &s)
{	SF_INFO wi ; memset (&wi, 0, sizeof (wi)) ;
	wi.format = s.format ; wi.channels = s.ch ; wi.samplerate = s.rate ; wi.frames = s.frames_field ;
	return open_mem (m, SFM_WRITE, &wi) ;
}
inline SNDFILE *open_read_mem (MemFile &m, const OpenSpec &s, SF_INFO *out)
{	SF_INFO ri ; memset (&ri, 0, sizeof (ri)) ;
	if ((s.format & SF_FORMAT_TYPEMASK) == SF_FORMAT_RAW) { ri.format = s.format ; ri.channels = s.ch ; ri.samplerate = s.rate ; }
	SNDFILE *f = open_mem (m, SFM_READ, &ri) ;
	if (out) *out = ri ;
	return f ;
}

// Generic sample buffer for an arbitrary codec: integers full range (width = type bits), floats in [-1,1)
inline void fill_any (void *dst, int t, size_t items, int style, uint64_t seed)
{	gen_samples (dst, t, items, t == T_SHORT ? 16 : 32, style, seed, 0) ; }

// Write N frames of deterministic data to a fresh MemFile with the given partition (frames per call, negative =
// item variant).  Every call uses type t.  Returns "" or a failure description.
inline std::string write_whole (MemFile &m, const OpenSpec &s, int t, long long N, int style, uint64_t seed, const std::vector<long long> &part, int *close_rc = nullptr)
{	SNDFILE *f = open_write_mem (m, s) ;
	if (!f) return std::string ("open_write_failed: ") + sf_strerror (nullptr) ;
	size_t items = (size_t) N * s.ch ; int ts = stype_size (t) ;
	Block src (items * ts) ; fill_any (src.p, t, items, style, seed) ;
	size_t off = 0 ;
	for (long long p : part)
	{	long long fr = p < 0 ? -p : p ;
		Block b ((size_t) fr * s.ch * ts) ; memcpy (b.p, src.p + off * ts, b.n) ;
		sf_count_t w = p < 0 ? sf_write_t (f, t, b.p, fr * s.ch) : sf_writef_t (f, t, b.p, fr) ;
		sf_count_t want = p < 0 ? fr * s.ch : fr ;
		if (w != want) { std::string d = "short_write: " + std::to_string ((long long) w) + " of " + std::to_string ((long long) want) + " " + sf_err_text (f) ; sf_close (f) ; return d ; }
		off += (size_t) fr * s.ch ;
	}
	int rc = sf_close (f) ;
	if (close_rc) *close_rc = rc ;
	if (rc != 0) return "close_failed: " + std::to_string (rc) ;
	return "" ;
}

} // namespace vf
