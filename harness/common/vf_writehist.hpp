// vf_writehist.hpp - partitioned writing with header updates and crash-point snapshots (C07, C11).
#pragma once
#include "vf_file.hpp"

namespace vf {

struct Snapshot { long long written ; std::vector<uint8_t> bytes ; } ;

// part entries: > 0 writef k frames, < 0 write (-k * ch) items, 0 = SFC_UPDATE_HEADER_NOW.
// returns "" or an error; snapshots (if non-null) are taken after each explicit update, or after every write
// call when `autohdr` is on.
static const long long SEEK_MARK = 1ll << 40 ;	// part entry SEEK_MARK + k: sf_seek (k, SEEK_SET) on the write handle (k clipped to the extent)

inline std::string write_partitioned (MemFile &m, const OpenSpec &s, int t, const uint8_t *src, long long N,
			const std::vector<long long> &part, bool autohdr, std::vector<Snapshot> *snaps, int *updates_done = nullptr, bool rdwr = false, int *rdwr_reads = nullptr, const uint8_t *rawsrc = nullptr, int rawbw = 0)
{	SNDFILE *f = nullptr ;
	if (rdwr)
	{	// read/write handle on a new file: a read or a read-pointer seek is slipped in between the last write and each explicit update
		SF_INFO wi ; memset (&wi, 0, sizeof (wi)) ; wi.format = s.format ; wi.channels = s.ch ; wi.samplerate = s.rate ; f = open_mem (m, SFM_RDWR, &wi) ;
		if (!f) { rdwr = false ; m = MemFile () ; }
	}
	if (!f) f = open_write_mem (m, s) ;
	if (!f) return std::string ("open_write_failed: ") + sf_strerror (nullptr) ;
	if (autohdr) sf_command (f, SFC_SET_UPDATE_HEADER_AUTO, nullptr, SF_TRUE) ;
	int ts = stype_size (t) ; long long done = 0, extent = 0 ;
	for (long long p : part)
	{	if (p == 0)
		{	if (rdwr && extent > 0)
			{	Block one ((size_t) s.ch * 8) ; if (sf_seek (f, (extent - 1) / 2, SEEK_SET | SFM_READ) < 0) { sf_close (f) ; return "rdwr_read_seek_failed: " + sf_err_text (f) ; }
				if ((extent & 1) && sf_readf_t (f, T_DOUBLE, one.p, 1) != 1) { sf_close (f) ; return "rdwr_read_failed" ; }
				if (rdwr_reads) (*rdwr_reads) ++ ;
			}
			sf_command (f, SFC_UPDATE_HEADER_NOW, nullptr, 0) ;
			if (updates_done) (*updates_done) ++ ;
			if (snaps) snaps->push_back ({ extent, m.data }) ;
			continue ;
		}
		if (p >= SEEK_MARK)
		{	long long k = p - SEEK_MARK ; if (k > extent) k = extent ;
			sf_count_t got = sf_seek (f, k, rdwr ? (SEEK_SET | SFM_WRITE) : SEEK_SET) ;
			if (got != k) { std::string d = "write_seek_failed: to " + std::to_string (k) + " returned " + std::to_string ((long long) got) + " " + sf_err_text (f) ; sf_close (f) ; return d ; }
			done = k ;
			continue ;
		}
		long long fr = p < 0 ? -p : p ;
		if (done + fr > N) fr = N - done ;
		if (fr <= 0) continue ;
		Block b ((size_t) fr * s.ch * ts) ; memcpy (b.p, src + (size_t) done * s.ch * ts, b.n) ;
		sf_count_t w, want = p < 0 ? fr * s.ch : fr ;
		if (rawsrc && rawbw > 0)
		{	// the audio goes in through sf_write_raw (rawsrc holds the encoded bytes of the whole signal, rawbw bytes per frame)
			Block rb ((size_t) (fr * rawbw)) ; memcpy (rb.p, rawsrc + (size_t) done * rawbw, rb.n) ; sf_count_t wb = sf_write_raw (f, rb.p, fr * rawbw) ; w = wb == fr * rawbw ? want : wb / rawbw ;
		}
		else w = p < 0 ? sf_write_t (f, t, b.p, fr * s.ch) : sf_writef_t (f, t, b.p, fr) ;
		if (w != want) { std::string d = "short_write: " + std::to_string ((long long) w) + " of " + std::to_string ((long long) want) + " " + sf_err_text (f) ; sf_close (f) ; return d ; }
		done += fr ; if (done > extent) extent = done ;
		if (autohdr && snaps) snaps->push_back ({ extent, m.data }) ;
	}
	if (extent < N)
	{	if (done != extent && sf_seek (f, extent, rdwr ? (SEEK_SET | SFM_WRITE) : SEEK_SET) != extent) { sf_close (f) ; return "write_seek_failed: to extent" ; }
		long long fr = N - extent ;
		Block b ((size_t) fr * s.ch * ts) ; memcpy (b.p, src + (size_t) extent * s.ch * ts, b.n) ;
		if (rawsrc && rawbw > 0) { Block rb ((size_t) (fr * rawbw)) ; memcpy (rb.p, rawsrc + (size_t) extent * rawbw, rb.n) ; if (sf_write_raw (f, rb.p, fr * rawbw) != fr * rawbw) { sf_close (f) ; return "short_write: raw tail" ; } }
		else if (sf_writef_t (f, t, b.p, fr) != fr) { sf_close (f) ; return "short_write: tail" ; }
	}
	int rc = sf_close (f) ;
	if (rc != 0) return "close_failed: " + std::to_string (rc) ;
	return "" ;
}

// partition with update markers (0) sprinkled in
inline std::vector<long long> make_partition_updates (Rng &r, long long N, int B, int ch, int ts, int update_one_in, bool even_only = false)
{	std::vector<long long> p = make_partition (r, N, B, ch, ts) ;
	std::vector<long long> out ;
	for (long long k : p)
	{	if (even_only && (k & 1)) k = k < 0 ? k - 1 : k + 1 ;	// may overshoot N; write_partitioned clamps
		out.push_back (k) ;
		if (update_one_in > 0 && r.below ((uint64_t) update_one_in) == 0) out.push_back (0) ;
	}
	return out ;
}

// mask the PEAK chunk timestamp (WAV/WAVEX/RF64 'PEAK', AIFF 'PEAK': version(4) timestamp(4) ...)
inline void mask_peak_timestamp (std::vector<uint8_t> &d)
{	for (auto &c : walk_iff (d))
		if (c.id == "PEAK" && c.data + 8 <= d.size ()) memset (d.data () + c.data + 4, 0, 4) ;
}

} // namespace vf
