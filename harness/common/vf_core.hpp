// vf_core.hpp - shared plumbing for the verification harnesses:
//   Case (ordered key=value record, the replay-file format), deterministic data PRNG,
//   evidence counters, known-finding predicates, and the generic runner main().
#pragma once
#include <cstdint>
#include <cstdio>
#include <cstdlib>
#include <cstring>
#include <cinttypes>
#include <string>
#include <vector>
#include <map>
#include <set>
#include <unordered_set>
#include <functional>
#include <sstream>
#include <fstream>
#include <chrono>
#include <algorithm>
#include <unistd.h>
#include <fcntl.h>
#include <sys/stat.h>
#include <sys/wait.h>
#include <dirent.h>

namespace vf {

// ---------------------------------------------------------------- util
// The library prints diagnostics to stdout (sds.c, alac.c).  Harness verdict lines go to vf::out (a dup
// of the original stdout); fd 1 itself is pointed at /dev/null by init_io().
inline FILE *&outf () { static FILE *f = stdout ; return f ; }
inline void init_io ()
{	fflush (stdout) ;
	int keep = dup (1) ;
	FILE *f = fdopen (keep, "w") ;
	if (f) { outf () = f ; setvbuf (f, nullptr, _IOLBF, 0) ; }
	int nul = open ("/dev/null", O_WRONLY) ;
	if (nul >= 0) { dup2 (nul, 1) ; close (nul) ; }
}
inline uint64_t splitmix (uint64_t &s)
{	uint64_t z = (s += 0x9E3779B97F4A7C15ull) ;
	z = (z ^ (z >> 30)) * 0xBF58476D1CE4E5B9ull ;
	z = (z ^ (z >> 27)) * 0x94D049BB133111EBull ;
	return z ^ (z >> 31) ;
}
struct Rng
{	uint64_t s ;
	explicit Rng (uint64_t seed) : s (seed * 0x2545F4914F6CDD1Dull + 0x1234567) {}
	uint64_t next () { return splitmix (s) ; }
	uint64_t below (uint64_t n) { return n ? next () % n : 0 ; }
	int64_t range (int64_t lo, int64_t hi) { return lo + (int64_t) below ((uint64_t) (hi - lo + 1)) ; }
	double unit () { return (double) (next () >> 11) * (1.0 / 9007199254740992.0) ; }
} ;
inline uint64_t fnv1a (const void *p, size_t n, uint64_t h = 1469598103934665603ull)
{	const uint8_t *b = (const uint8_t *) p ;
	for (size_t i = 0 ; i < n ; i++) { h ^= b [i] ; h *= 1099511628211ull ; }
	return h ;
}
inline uint64_t fnv_str (const std::string &s, uint64_t h = 1469598103934665603ull) { return fnv1a (s.data (), s.size (), h) ; }
inline std::string hex (const void *p, size_t n)
{	static const char *d = "0123456789abcdef" ; std::string s ; s.reserve (n * 2) ;
	const uint8_t *b = (const uint8_t *) p ;
	for (size_t i = 0 ; i < n ; i++) { s += d [b [i] >> 4] ; s += d [b [i] & 15] ; }
	return s ;
}
inline std::vector<uint8_t> unhex (const std::string &s)
{	std::vector<uint8_t> v ; auto hv = [] (char c) { return c <= '9' ? c - '0' : (c | 32) - 'a' + 10 ; } ;
	for (size_t i = 0 ; i + 1 < s.size () ; i += 2) v.push_back ((uint8_t) (hv (s [i]) * 16 + hv (s [i + 1]))) ;
	return v ;
}
inline double now_s ()
{	using namespace std::chrono ;
	return duration<double> (steady_clock::now ().time_since_epoch ()).count () ;
}
inline std::string json_escape (const std::string &s)
{	std::string o ;
	for (unsigned char c : s)
	{	if (c == '"' || c == '\\') { o += '\\' ; o += (char) c ; }
		else if (c < 0x20 || c >= 0x7f) { char b [8] ; snprintf (b, sizeof (b), "\\u%04x", c) ; o += b ; }
		else o += (char) c ;
	}
	return o ;
}
inline std::string env (const char *k, const char *def = "") { const char *v = getenv (k) ; return v ? v : def ; }

// ---------------------------------------------------------------- Case: ordered key=value record
struct Case
{	std::vector<std::pair<std::string, std::string>> kv ;
	void set (const std::string &k, const std::string &v)
	{	for (auto &p : kv) if (p.first == k) { p.second = v ; return ; }
		kv.emplace_back (k, v) ;
	}
	void seti (const std::string &k, long long v) { set (k, std::to_string (v)) ; }
	bool has (const std::string &k) const { for (auto &p : kv) if (p.first == k) return true ; return false ; }
	std::string gets (const std::string &k, const std::string &def = "") const
	{	for (auto &p : kv) if (p.first == k) return p.second ; return def ; }
	long long geti (const std::string &k, long long def = 0) const
	{	for (auto &p : kv) if (p.first == k) return strtoll (p.second.c_str (), nullptr, 0) ; return def ; }
	std::string str (char sep = '\n') const
	{	std::string s ; for (auto &p : kv) { s += p.first ; s += '=' ; s += p.second ; s += sep ; } return s ; }
	static Case parse (const std::string &text)
	{	Case c ; std::istringstream is (text) ; std::string line ;
		while (std::getline (is, line))
		{	if (line.empty () || line [0] == '#') continue ;
			auto e = line.find ('=') ; if (e == std::string::npos) continue ;
			c.set (line.substr (0, e), line.substr (e + 1)) ;
		}
		return c ;
	}
	static bool load (const std::string &path, Case &c)
	{	std::ifstream f (path) ; if (!f) return false ;
		std::stringstream ss ; ss << f.rdbuf () ; c = parse (ss.str ()) ; return true ;
	}
	bool save (const std::string &path) const
	{	std::string tmp = path + ".tmp" ;
		FILE *f = fopen (tmp.c_str (), "w") ; if (!f) return false ;
		std::string s = str () ; fwrite (s.data (), 1, s.size (), f) ; fclose (f) ;
		return rename (tmp.c_str (), path.c_str ()) == 0 ;
	}
} ;

// list-of-ints helper ("3,7,12")
inline std::string join_ints (const std::vector<long long> &v)
{	std::string s ; for (size_t i = 0 ; i < v.size () ; i++) { if (i) s += ',' ; s += std::to_string (v [i]) ; } return s ; }
inline std::vector<long long> split_ints (const std::string &s)
{	std::vector<long long> v ; const char *p = s.c_str () ;
	while (*p) { char *e ; long long x = strtoll (p, &e, 0) ; if (e == p) break ; v.push_back (x) ; p = e ; if (*p == ',') p++ ; }
	return v ;
}
inline std::vector<std::string> split (const std::string &s, char sep)
{	std::vector<std::string> v ; std::string cur ;
	for (char c : s) { if (c == sep) { v.push_back (cur) ; cur.clear () ; } else cur += c ; }
	if (!cur.empty () || !s.empty ()) v.push_back (cur) ;
	return v ;
}

// ---------------------------------------------------------------- result of running one case
struct Result
{	bool ok = true ;
	std::string kind ;		// short violation kind, e.g. "data_mismatch"
	std::string detail ;	// human readable
	bool nontrivial = false ;
	uint64_t dhash = 0 ;	// descriptor hash for "distinct"
	std::vector<std::string> classes ;	// histogram labels
	Case sig ;				// extra signature keys (derived), merged with the case for KF matching
	static Result fail (const std::string &kind, const std::string &detail)
	{	Result r ; r.ok = false ; r.kind = kind ; r.detail = detail ; return r ; }
} ;

// ---------------------------------------------------------------- known findings
// file format (written by ./check from known_findings.json), one finding per line:
//   <id>\t<exclude:0|1>\t<cond>\t<cond>...      cond := key=val | key!=val | key>=n | key<=n | key~a|b|c
struct KnownFinding
{	std::string id ; bool exclude = false ; std::vector<std::string> conds ; long hits = 0 ; long excluded = 0 ; } ;

inline bool cond_holds (const std::string &c, const Case &sig)
{	size_t p ;
	auto num = [] (const std::string &s) { return strtoll (s.c_str (), nullptr, 0) ; } ;
	if ((p = c.find (">=")) != std::string::npos) { auto k = c.substr (0, p) ; return sig.has (k) && num (sig.gets (k)) >= num (c.substr (p + 2)) ; }
	if ((p = c.find ("<=")) != std::string::npos) { auto k = c.substr (0, p) ; return sig.has (k) && num (sig.gets (k)) <= num (c.substr (p + 2)) ; }
	if ((p = c.find ("!=")) != std::string::npos) { auto k = c.substr (0, p) ; return sig.gets (k) != c.substr (p + 2) ; }
	if ((p = c.find ('~')) != std::string::npos)
	{	auto k = c.substr (0, p) ; auto v = sig.gets (k) ;
		for (auto &alt : split (c.substr (p + 1), '|')) if (alt == v) return sig.has (k) ;
		return false ;
	}
	if ((p = c.find ('=')) != std::string::npos) { auto k = c.substr (0, p) ; return sig.has (k) && sig.gets (k) == c.substr (p + 1) ; }
	return false ;
}

struct KnownFindings
{	std::vector<KnownFinding> list ;
	void load (const std::string &path)
	{	std::ifstream f (path) ; std::string line ;
		while (std::getline (f, line))
		{	if (line.empty () || line [0] == '#') continue ;
			auto parts = split (line, '\t') ; if (parts.size () < 2) continue ;
			KnownFinding k ; k.id = parts [0] ; k.exclude = parts [1] == "1" ;
			for (size_t i = 2 ; i < parts.size () ; i++) if (!parts [i].empty ()) k.conds.push_back (parts [i]) ;
			list.push_back (k) ;
		}
	}
	// match a *failure* signature (case + derived + kind)
	KnownFinding *match (const Case &sig)
	{	for (auto &k : list)
		{	bool all = true ;
			for (auto &c : k.conds) if (!cond_holds (c, sig)) { all = false ; break ; }
			if (all) return &k ;
		}
		return nullptr ;
	}
	// match a case *before* running it: only findings flagged exclude (crashers) and only their
	// conditions that do not mention "kind"
	KnownFinding *excluded (const Case &sig)
	{	for (auto &k : list)
		{	if (!k.exclude) continue ;
			bool all = true ;
			for (auto &c : k.conds)
			{	if (c.compare (0, 4, "kind") == 0) continue ;
				if (!cond_holds (c, sig)) { all = false ; break ; }
			}
			if (all) return &k ;
		}
		return nullptr ;
	}
} ;

// ---------------------------------------------------------------- evidence
struct Evidence
{	std::string property ;
	long long evaluations = 0 ;
	std::unordered_set<uint64_t> distinct ;
	std::map<std::string, long long> classes ;
	std::vector<std::string> samples ;	// serialized cases (one-line)
	long long sample_seen = 0 ;
	long long excluded_known = 0, known_hits = 0, violations = 0, skipped_budget = 0 ;
	std::map<std::string, long long> extra ;	// property specific integer counters
	double t0 = now_s () ;
	uint64_t rs = 88172645463325252ull ;

	void add (const Case &c, const Result &r)
	{	evaluations ++ ;
		if (r.nontrivial) distinct.insert (r.dhash) ;
		for (auto &cl : r.classes) classes [cl] ++ ;
		if (r.nontrivial)
		{	sample_seen ++ ;
			std::string s = c.str (' ') ;
			if (s.size () > 600) s = s.substr (0, 600) + "..." ;
			if (samples.size () < 8) samples.push_back (s) ;
			else { uint64_t j = splitmix (rs) % (uint64_t) sample_seen ; if (j < 8) samples [j] = s ; }
		}
	}
	void write (const std::string &path, KnownFindings *kf = nullptr) const
	{	std::string tmp = path + ".tmp" ;
		FILE *f = fopen (tmp.c_str (), "w") ; if (!f) return ;
		fprintf (f, "{\"property\":\"%s\",\"evaluations\":%lld,\"excluded_known\":%lld,\"known_hits\":%lld,\"violations\":%lld,\"skipped_budget\":%lld,\"wall_s\":%.3f,\n",
			property.c_str (), evaluations, excluded_known, known_hits, violations, skipped_budget, now_s () - t0) ;
		fprintf (f, "\"distinct\":[") ;
		{ bool first = true ; for (auto h : distinct) { fprintf (f, "%s\"%016" PRIx64 "\"", first ? "" : ",", h) ; first = false ; } }
		fprintf (f, "],\n\"classes\":{") ;
		{ bool first = true ; for (auto &p : classes) { fprintf (f, "%s\"%s\":%lld", first ? "" : ",", json_escape (p.first).c_str (), p.second) ; first = false ; } }
		fprintf (f, "},\n\"extra\":{") ;
		{ bool first = true ; for (auto &p : extra) { fprintf (f, "%s\"%s\":%lld", first ? "" : ",", json_escape (p.first).c_str (), p.second) ; first = false ; } }
		fprintf (f, "},\n\"kf\":{") ;
		if (kf) { bool first = true ; for (auto &k : kf->list) { fprintf (f, "%s\"%s\":{\"hits\":%ld,\"excluded\":%ld}", first ? "" : ",", json_escape (k.id).c_str (), k.hits, k.excluded) ; first = false ; } }
		fprintf (f, "},\n\"samples\":[") ;
		{ bool first = true ; for (auto &s : samples) { fprintf (f, "%s\"%s\"", first ? "" : ",", json_escape (s).c_str ()) ; first = false ; } }
		fprintf (f, "]}\n") ;
		fclose (f) ;
		rename (tmp.c_str (), path.c_str ()) ;
	}
} ;

// ---------------------------------------------------------------- run context (options common to all harness binaries)
struct Ctx
{	std::string property ;
	std::string outdir = "." ;		// build/run/<ID>/w<k>
	std::string replay ;			// --replay file
	std::string kf_file ;
	long long cases = 1000 ;		// --cases
	double budget_s = 1e9 ;			// --budget (soft wall cap; excess cases are skipped, never violations)
	uint64_t seed = 1 ;				// --seed
	int size = 100 ;				// --size (rapidcheck max_size)
	bool thorough = false ;
	std::map<std::string, std::string> opt ;	// any other --key value
	Evidence ev ;
	KnownFindings kf ;
	double t_start = now_s () ;
	double last_flush = 0 ;
	bool have_failure = false ;
	Case failing ; Result failing_res ;

	std::string path (const std::string &name) const { return outdir + "/" + name ; }
	bool over_budget () const { return now_s () - t_start > budget_s ; }
	void flush (bool force = false)
	{	double t = now_s () ;
		if (!force && t - last_flush < 2.0) return ;
		last_flush = t ;
		ev.write (path ("counters.json"), &kf) ;
	}
	void parse (int argc, char **argv)
	{	for (int i = 1 ; i < argc ; i++)
		{	std::string a = argv [i] ;
			auto val = [&] () -> std::string { return i + 1 < argc ? argv [++i] : "" ; } ;
			if (a == "--replay") replay = val () ;
			else if (a == "--out") outdir = val () ;
			else if (a == "--kf") kf_file = val () ;
			else if (a == "--cases") cases = atoll (val ().c_str ()) ;
			else if (a == "--budget") budget_s = atof (val ().c_str ()) ;
			else if (a == "--seed") seed = strtoull (val ().c_str (), nullptr, 0) ;
			else if (a == "--size") size = atoi (val ().c_str ()) ;
			else if (a == "--thorough") thorough = true ;
			else if (a.compare (0, 2, "--") == 0) opt [a.substr (2)] = val () ;
		}
		// the harness changes into its scratch directory (see scratch_dir): make every path given on the command line absolute first
		{	char cwd [4096] ; std::string base = getcwd (cwd, sizeof (cwd)) ? cwd : "." ;
			auto abs = [&] (std::string &p) { if (!p.empty () && p [0] != '/') p = base + "/" + p ; } ;
			abs (replay) ; abs (outdir) ; abs (kf_file) ; for (auto &kv : opt) if (kv.first == "emit-corpus" || kv.first == "stats") abs (kv.second) ;
		}
		mkdir (outdir.c_str (), 0777) ;
		unlink (path ("failing.case").c_str ()) ;
		if (!kf_file.empty ()) kf.load (kf_file) ;
		ev.property = property ;
	}
	long long opti (const std::string &k, long long def) const
	{	auto it = opt.find (k) ; return it == opt.end () ? def : atoll (it->second.c_str ()) ; }
} ;

// Merge case + derived signature + kind into one record for KF matching
inline Case full_sig (const Case &c, const Result &r)
{	Case s = c ;
	for (auto &p : r.sig.kv) s.set (p.first, p.second) ;
	if (!r.ok) s.set ("kind", r.kind) ;
	return s ;
}

// Execute one case through the bookkeeping. Returns true when the case must be reported to the
// generator as a failure (i.e. an unlisted violation).  `run` executes the case, `sigfn` computes the
// static signature used for exclusion (may be null).
using RunFn = std::function<Result (const Case &)> ;
using SigFn = std::function<Case (const Case &)> ;

inline bool execute (Ctx &ctx, const Case &c, const RunFn &run, const SigFn &sigfn, bool counting = true)
{	if (counting && ctx.over_budget ()) { ctx.ev.skipped_budget ++ ; return false ; }
	if (sigfn && !ctx.kf.list.empty ())
	{	Case s = c ; Case d = sigfn (c) ; for (auto &p : d.kv) s.set (p.first, p.second) ;
		if (auto *k = ctx.kf.excluded (s)) { k->excluded ++ ; ctx.ev.excluded_known ++ ; return false ; }
	}
	c.save (ctx.path ("current.case")) ;	// survives a sanitizer abort
	unlink ("._") ;	// a resource fork an earlier case may have left in the (scratch) working directory must not be found by this one
	Result r = run (c) ;
	if (counting) ctx.ev.add (c, r) ;
	if (!r.ok)
	{	Case s = full_sig (c, r) ;
		if (auto *k = ctx.kf.match (s))
		{	k->hits ++ ; ctx.ev.known_hits ++ ;
			if (ctx.opt.count ("save-known") && k->hits == 1) c.save (ctx.path ("known_" + k->id + ".case")) ;	// triage: a witness candidate per finding
			if (counting) ctx.flush () ; return false ;
		}
		if (ctx.opt.count ("survey"))
		{	// triage mode: tally failures by signature instead of stopping at the first one
			std::string key = "FAIL " + r.kind ;
			for (auto &p : r.sig.kv) key += " " + p.first + "=" + p.second ;
			for (auto &k2 : split (ctx.opt ["survey"], ',')) if (c.has (k2)) key += " " + k2 + "=" + c.gets (k2) ;
			if (ctx.ev.classes [key] ++ == 0)
			{	char nm [64] ; snprintf (nm, sizeof (nm), "survey_%016llx.case", (unsigned long long) fnv_str (key)) ;
				Case out = c ; std::string text = c.str () + "#key=" + key + "\n#detail=" + r.detail + "\n" ;
				FILE *f = fopen (ctx.path (nm).c_str (), "w") ; if (f) { fwrite (text.data (), 1, text.size (), f) ; fclose (f) ; }
			}
			return false ;
		}
		ctx.have_failure = true ; ctx.failing = c ; ctx.failing_res = r ;
		Case out = c ; out.set ("#kind", r.kind) ; out.set ("#detail", r.detail) ;
		for (auto &p : r.sig.kv) out.set ("#sig." + p.first, p.second) ;
		// (# keys are comments for the reader: Case::parse skips lines starting with '#')
		std::string text = c.str () + "#kind=" + r.kind + "\n#detail=" + r.detail + "\n" ;
		for (auto &p : r.sig.kv) text += "#sig." + p.first + "=" + p.second + "\n" ;
		FILE *f = fopen (ctx.path ("failing.case").c_str (), "w") ;
		if (f) { fwrite (text.data (), 1, text.size (), f) ; fclose (f) ; }
		return true ;
	}
	if (counting) ctx.flush () ;
	return false ;
}

// Replay mode: run one saved case, print the verdict, exit code 0 = passes, 1 = fails (unlisted),
// 3 = fails but matches a known finding.
inline int replay_main (Ctx &ctx, const RunFn &run)
{	Case c ;
	if (!Case::load (ctx.replay, c)) { fprintf (stderr, "cannot read replay file %s\n", ctx.replay.c_str ()) ; return 2 ; }
	c.save (ctx.path ("current.case")) ;
	Result r = run (c) ;
	if (r.ok) { fprintf (outf (), "REPLAY pass\n") ; return 0 ; }
	Case s = full_sig (c, r) ;
	if (auto *k = ctx.kf.match (s)) { fprintf (outf (), "REPLAY known %s kind=%s detail=%s\n", k->id.c_str (), r.kind.c_str (), r.detail.c_str ()) ; return 3 ; }
	fprintf (outf (), "REPLAY fail kind=%s detail=%s\n", r.kind.c_str (), r.detail.c_str ()) ;
	for (auto &p : r.sig.kv) fprintf (outf (), "  sig.%s=%s\n", p.first.c_str (), p.second.c_str ()) ;
	return 1 ;
}


} // namespace vf
