// vf_c03.hpp - the one target function shared by the C03 mutation sweep (harness/c03.cc) and the libFuzzer target
// (fuzz/c03_fuzz.cc), plus the deterministic seed corpus.
//
// input layout:  file bytes || 3-byte ops (op, a, b) x nops || nops byte || control byte
//   control: bits 0-1 route {0,3 virtual I/O; 1 descriptor (memfd); 2 non-seekable pipe}, bit 2 = supply a RAW SF_INFO,
//            bits 3-7 select the RAW encoding / channel count
// An input shorter than 2 bytes is taken as file bytes only (virtual I/O, no ops).
#pragma once
#include "vf_file.hpp"
#include <sys/mman.h>
#include <fcntl.h>

extern "C" int __lsan_do_recoverable_leak_check (void) ;

namespace vf {

struct C03Out
{	bool ok = true ; std::string kind, detail ;
	bool opened = false ; int format = 0, channels = 0 ; int route = 0 ; int ops_run = 0 ; bool raw_info = false ;
	size_t file_len = 0 ; int negative_returns = 0 ;
} ;

static const int c03_raw_subtypes [] = { SF_FORMAT_PCM_16, SF_FORMAT_PCM_24, SF_FORMAT_FLOAT, SF_FORMAT_DOUBLE, SF_FORMAT_ULAW, SF_FORMAT_ALAW, SF_FORMAT_GSM610, SF_FORMAT_VOX_ADPCM,
	SF_FORMAT_DWVW_12, SF_FORMAT_DWVW_16, SF_FORMAT_DWVW_24, SF_FORMAT_NMS_ADPCM_16, SF_FORMAT_NMS_ADPCM_24, SF_FORMAT_NMS_ADPCM_32, SF_FORMAT_PCM_U8, SF_FORMAT_PCM_32 } ;

// "a format word naming a known container and encoding": the public SF_FORMAT_* constants of sndfile.h (SFC_GET_FORMAT_INFO only
// knows the writable ones: DWVW_N, for instance, is readable but not writable)
inline bool known_major (int fmt)
{	static const int majors [] = { SF_FORMAT_WAV, SF_FORMAT_AIFF, SF_FORMAT_AU, SF_FORMAT_RAW, SF_FORMAT_PAF, SF_FORMAT_SVX, SF_FORMAT_NIST, SF_FORMAT_VOC, SF_FORMAT_IRCAM, SF_FORMAT_W64, SF_FORMAT_MAT4, SF_FORMAT_MAT5,
		SF_FORMAT_PVF, SF_FORMAT_XI, SF_FORMAT_HTK, SF_FORMAT_SDS, SF_FORMAT_AVR, SF_FORMAT_WAVEX, SF_FORMAT_SD2, SF_FORMAT_FLAC, SF_FORMAT_CAF, SF_FORMAT_WVE, SF_FORMAT_OGG, SF_FORMAT_MPC2K, SF_FORMAT_RF64, SF_FORMAT_MPEG } ;
	for (int m : majors) if ((fmt & SF_FORMAT_TYPEMASK) == m) return true ; return false ;
}
inline bool known_subtype (int fmt)
{	static const int subs [] = { SF_FORMAT_PCM_S8, SF_FORMAT_PCM_16, SF_FORMAT_PCM_24, SF_FORMAT_PCM_32, SF_FORMAT_PCM_U8, SF_FORMAT_FLOAT, SF_FORMAT_DOUBLE, SF_FORMAT_ULAW, SF_FORMAT_ALAW, SF_FORMAT_IMA_ADPCM, SF_FORMAT_MS_ADPCM,
		SF_FORMAT_GSM610, SF_FORMAT_VOX_ADPCM, SF_FORMAT_NMS_ADPCM_16, SF_FORMAT_NMS_ADPCM_24, SF_FORMAT_NMS_ADPCM_32, SF_FORMAT_G721_32, SF_FORMAT_G723_24, SF_FORMAT_G723_40, SF_FORMAT_DWVW_12, SF_FORMAT_DWVW_16, SF_FORMAT_DWVW_24, SF_FORMAT_DWVW_N,
		SF_FORMAT_DPCM_8, SF_FORMAT_DPCM_16, SF_FORMAT_VORBIS, SF_FORMAT_OPUS, SF_FORMAT_ALAC_16, SF_FORMAT_ALAC_20, SF_FORMAT_ALAC_24, SF_FORMAT_ALAC_32, SF_FORMAT_MPEG_LAYER_I, SF_FORMAT_MPEG_LAYER_II, SF_FORMAT_MPEG_LAYER_III } ;
	for (int m : subs) if ((fmt & SF_FORMAT_SUBMASK) == m) return true ; return false ;
}

inline void split_input (const uint8_t *data, size_t size, size_t &file_len, std::vector<uint8_t> &ops, int &ctl)
{	file_len = size ; ops.clear () ; ctl = 0 ;
	if (size < 2) return ;
	ctl = data [size - 1] ; size_t nops = data [size - 2] % 25 ; size_t room = (size - 2) / 3 ; if (nops > room) nops = room ;
	file_len = size - 2 - nops * 3 ; ops.assign (data + file_len, data + file_len + nops * 3) ;
}
inline std::vector<uint8_t> join_input (const std::vector<uint8_t> &file, const std::vector<uint8_t> &ops, int ctl)
{	std::vector<uint8_t> v = file ; size_t nops = ops.size () / 3 ; if (nops > 24) nops = 24 ; v.insert (v.end (), ops.begin (), ops.begin () + (long) nops * 3) ; v.push_back ((uint8_t) nops) ; v.push_back ((uint8_t) ctl) ; return v ;
}

#define C03_FAIL(k, d) do { out.ok = false ; out.kind = (k) ; out.detail = (d) ; goto done ; } while (0)

// trap: libFuzzer wants the failure as a crash so that it keeps the input; the sweep wants a value
inline C03Out c03_run (const uint8_t *data, size_t size, bool trap_on_budget)
{	C03Out out ; size_t flen ; std::vector<uint8_t> ops ; int ctl ;
	split_input (data, size, flen, ops, ctl) ;
	out.file_len = flen ; out.route = (ctl & 3) == 3 ? 0 : (ctl & 3) ; out.raw_info = (ctl & 4) != 0 ;
	if (out.route == 2 && flen > 60000) out.route = 0 ;
	SF_INFO info ; memset (&info, 0, sizeof (info)) ;
	if (out.raw_info)
	{	int sel = (ctl >> 3) & 31 ; info.format = SF_FORMAT_RAW | c03_raw_subtypes [sel % 16] ; info.channels = 1 + (sel >> 4) ; info.samplerate = 8000 ;
		if ((info.format & SF_FORMAT_SUBMASK) == SF_FORMAT_GSM610 || (info.format & SF_FORMAT_SUBMASK) == SF_FORMAT_VOX_ADPCM || ((info.format & SF_FORMAT_SUBMASK) >= SF_FORMAT_NMS_ADPCM_16 && (info.format & SF_FORMAT_SUBMASK) <= SF_FORMAT_NMS_ADPCM_32)) info.channels = 1 ;
	}
	MemFile mf ; SNDFILE *h = nullptr ; int fd = -1, pfd [2] = { -1, -1 } ;
	long long per_call = 2000000 + 100 * (long long) flen ;	// generous: 16-bit counted loops (AIFF COMT) and 21-bit SDS lengths are constant bounds, an endless loop exceeds any budget
	if (out.route == 0)
	{	mf.data.assign (data, data + flen) ; mf.read_only = true ; mf.budget_fatal = true ; mf.budget_trap = trap_on_budget ; mf.reset_budget (per_call) ;
		h = open_mem (mf, SFM_READ, &info) ;
	}
	else if (out.route == 1)
	{	fd = memfd_create ("c03", 0) ; if (fd < 0) return out ;
		size_t w = 0 ; while (w < flen) { ssize_t k = write (fd, data + w, flen - w) ; if (k <= 0) break ; w += (size_t) k ; } lseek (fd, 0, SEEK_SET) ;
		h = sf_open_fd (fd, SFM_READ, &info, 1) ; if (!h) close (fd) ;
	}
	else
	{	if (pipe (pfd) != 0) return out ;
		size_t w = 0 ; while (w < flen) { ssize_t k = write (pfd [1], data + w, flen - w) ; if (k <= 0) break ; w += (size_t) k ; } close (pfd [1]) ;
		h = sf_open_fd (pfd [0], SFM_READ, &info, 1) ; if (!h) close (pfd [0]) ;
	}
	if (!h)
	{	int e = sf_error (nullptr) ; const char *s = sf_strerror (nullptr) ;
		if (e == 0) C03_FAIL ("null_without_error", "sf_open returned NULL but sf_error (NULL) is 0") ;
		if (!s || !*s) C03_FAIL ("null_without_message", "sf_open returned NULL, error " + std::to_string (e) + ", empty message") ;
		return out ;
	}
	out.opened = true ; out.format = info.format ; out.channels = info.channels ;
	{	std::string bad ;
		if (info.channels < 1 || info.channels > 1024) bad = "channels=" + std::to_string (info.channels) ;
		else if (info.samplerate < 1) bad = "samplerate=" + std::to_string (info.samplerate) ;
		else if (info.frames < 0) bad = "frames=" + std::to_string ((long long) info.frames) ;
		else if (info.sections < 1) bad = "sections=" + std::to_string (info.sections) ;
		else if (!known_major (info.format)) bad = "container of format word " + std::to_string (info.format) + " unknown" ;
		else if (!known_subtype (info.format)) bad = "encoding of format word " + std::to_string (info.format) + " unknown" ;
		if (!bad.empty ()) { sf_close (h) ; C03_FAIL ("insane_info", bad) ; }
	}
	{	int ch = info.channels ; const long long MAXITEMS = 131072 ;
		for (size_t i = 0 ; i + 2 < ops.size () + 0 && i / 3 < 24 ; i += 3)
		{	int op = ops [i] % 16, a = ops [i + 1], b = ops [i + 2] ;
			mf.reset_budget (per_call) ; out.ops_run ++ ;
			int inv ;
			if (op < 8)
			{	int t = op & 3 ; bool frames = op >= 4 ;
				long long table [] = { 1, ch, 3ll * ch, 7ll * ch + 1, 4096ll * ch, (long long) info.frames * ch + ch, 160ll * ch, 2ll * ch - 1 } ;
				long long items = table [a & 7] + (b & 1 ? b : 0) ; if (items < 0) items = 0 ; if (items > MAXITEMS) items = MAXITEMS ;
				if (frames) { long long fr = items / ch ; Block blk ((size_t) fr * ch * stype_size (t)) ; sf_count_t r = sf_readf_t (h, t, blk.p, fr) ; if (r < 0) out.negative_returns ++ ; if (r > fr) { sf_close (h) ; C03_FAIL ("read_count_out_of_range", "sf_readf returned " + std::to_string ((long long) r) + " for " + std::to_string (fr) + " frames") ; } }
				else { Block blk ((size_t) items * stype_size (t)) ; sf_count_t r = sf_read_t (h, t, blk.p, items) ; if (r < 0) out.negative_returns ++ ; if (r > items) { sf_close (h) ; C03_FAIL ("read_count_out_of_range", "sf_read returned " + std::to_string ((long long) r) + " for " + std::to_string (items) + " items") ; } }
			}
			else if (op == 8)
			{	long long bytes = (long long) a * 16 + b ; Block blk ((size_t) bytes) ; sf_count_t r = sf_read_raw (h, blk.p, bytes) ; if (r < 0) out.negative_returns ++ ; if (r > bytes) { sf_close (h) ; C03_FAIL ("read_count_out_of_range", "sf_read_raw returned " + std::to_string ((long long) r) + " for " + std::to_string (bytes)) ; } }
			else if (op == 9)
			{	long long F = info.frames ; long long offs [] = { 0, 1, -1, F / 2, F, F + 1, -F, -F / 2, 0x7fffffffffffffffll, (long long) 0x8000000000000000ull, 4096, -4096, F - 1, 7, -7, 160 } ;
				int wh = (a & 3) == 3 ? SEEK_SET : (a & 3) ; if (a & 4) wh |= SFM_READ ; sf_seek (h, offs [b & 15], wh) ;
			}
			else if (op == 10) { for (int s = SF_STR_FIRST ; s <= SF_STR_LAST ; s++) { const char *p = sf_get_string (h, s) ; if (p) { volatile size_t n = strlen (p) ; (void) n ; } } }
			else if (op == 11)
			{	switch (a % 10)
				{	case 0 : { Block d (8) ; sf_command (h, SFC_CALC_SIGNAL_MAX, d.p, 8) ; } break ;
					case 1 : { Block d (8) ; sf_command (h, SFC_CALC_NORM_SIGNAL_MAX, d.p, 8) ; } break ;
					case 2 : { Block d (8 * (size_t) ch) ; sf_command (h, SFC_CALC_MAX_ALL_CHANNELS, d.p, 8 * ch) ; } break ;
					case 3 : { Block d (8 * (size_t) ch) ; sf_command (h, SFC_CALC_NORM_MAX_ALL_CHANNELS, d.p, 8 * ch) ; } break ;
					case 4 : { Block d (8) ; sf_command (h, SFC_GET_SIGNAL_MAX, d.p, 8) ; } break ;
					case 5 : { Block d (8 * (size_t) ch) ; sf_command (h, SFC_GET_MAX_ALL_CHANNELS, d.p, 8 * ch) ; } break ;
					case 6 : { size_t n = 1 + (size_t) b * 70 ; Block d (n) ; sf_command (h, SFC_GET_LOG_INFO, d.p, (int) n) ; } break ;
					case 7 : { Block d (sizeof (SF_INFO)) ; sf_command (h, SFC_GET_CURRENT_SF_INFO, d.p, sizeof (SF_INFO)) ; } break ;
					case 8 : { sf_current_byterate (h) ; sf_command (h, SFC_GET_NORM_FLOAT, nullptr, 0) ; sf_command (h, SFC_GET_CLIPPING, nullptr, 0) ; } break ;
					default : { Block d (sizeof (SF_EMBED_FILE_INFO)) ; sf_command (h, SFC_GET_EMBED_FILE_INFO, d.p, sizeof (SF_EMBED_FILE_INFO)) ; Block e (4) ; sf_command (h, SFC_GET_ORIGINAL_SAMPLERATE, e.p, 4) ; sf_command (h, SFC_GET_BITRATE_MODE, nullptr, 0) ; } break ;
				}
			}
			else if (op == 12)
			{	SF_CHUNK_INFO q ; memset (&q, 0, sizeof (q)) ; static const char *ids [] = { "LIST", "bext", "cue ", "smpl", "MARK", "INST", "PEAK", "fact", "COMT", "abcd", "data", "fmt ", "NAME", "ANNO", "chan", "uuid" } ;
				SF_CHUNK_ITERATOR *it ;
				if (a & 1) { snprintf (q.id, sizeof (q.id), "%s", ids [(a >> 1) & 15]) ; q.id_size = 4 ; it = sf_get_chunk_iterator (h, &q) ; } else it = sf_get_chunk_iterator (h, nullptr) ;
				for (int k = 0 ; it && k < 64 ; k++)
				{	SF_CHUNK_INFO ci ; memset (&ci, 0, sizeof (ci)) ;
					if (sf_get_chunk_size (it, &ci) == 0 && ci.datalen <= (1u << 20))
					{	unsigned want = ci.datalen ; if ((b & 3) == 1 && want > 0) want = want / 2 ; else if ((b & 3) == 2 && want > 0) want -- ;
						Block d (want) ; ci.data = d.p ; ci.datalen = want ; sf_get_chunk_data (it, &ci) ;
					}
					it = sf_next_chunk_iterator (it) ;
				}
			}
			else if (op == 13)
			{	switch (a % 8)
				{	case 0 : { unsigned n = 0 ; Block d (4) ; sf_command (h, SFC_GET_CUE_COUNT, d.p, 4) ; memcpy (&n, d.p, 4) ; (void) n ; } break ;
					case 1 : { static const int ks [] = { 1, 2, 3, 100 } ; int k = ks [b & 3] ; size_t n = sizeof (uint32_t) + (size_t) k * sizeof (SF_CUE_POINT) ; Block d (n) ; sf_command (h, SFC_GET_CUE, d.p, (int) n) ; } break ;
					case 2 : { Block d (sizeof (SF_INSTRUMENT)) ; sf_command (h, SFC_GET_INSTRUMENT, d.p, sizeof (SF_INSTRUMENT)) ; } break ;
					case 3 : { Block d (sizeof (SF_LOOP_INFO)) ; sf_command (h, SFC_GET_LOOP_INFO, d.p, sizeof (SF_LOOP_INFO)) ; } break ;
					case 4 : { Block d (sizeof (SF_BROADCAST_INFO)) ; sf_command (h, SFC_GET_BROADCAST_INFO, d.p, sizeof (SF_BROADCAST_INFO)) ; } break ;
					case 5 : { Block d (sizeof (SF_CART_INFO)) ; sf_command (h, SFC_GET_CART_INFO, d.p, sizeof (SF_CART_INFO)) ; } break ;
					case 6 : { Block d (4 * (size_t) ch) ; sf_command (h, SFC_GET_CHANNEL_MAP_INFO, d.p, 4 * ch) ; } break ;
					default : { Block d (sizeof (SF_DITHER_INFO)) ; sf_command (h, SFC_GET_DITHER_INFO_COUNT, nullptr, 0) ; } break ;
				}
			}
			else if (op == 14)
			{	static const int cmds [] = { SFC_SET_NORM_FLOAT, SFC_SET_NORM_DOUBLE, SFC_SET_SCALE_FLOAT_INT_READ, SFC_SET_CLIPPING } ; sf_command (h, cmds [a & 3], nullptr, b & 1) ; }
			else { break ; }
			inv = sf_verif_check_invariants (h) & ~0x40 ;
			if (inv) { sf_close (h) ; C03_FAIL ("invariant_broken", "sf_verif_check_invariants mask " + std::to_string (inv) + " after op " + std::to_string (op)) ; }
		}
	}
	mf.reset_budget (per_call) ;
	sf_close (h) ;
done :
	if (out.route == 1 && fd >= 0 && fcntl (fd, F_GETFD) != -1) close (fd) ;
	if (out.route == 2 && pfd [0] >= 0 && fcntl (pfd [0], F_GETFD) != -1) close (pfd [0]) ;
	return out ;
}

// ---------------------------------------------------------------- seed corpus (deterministic, from the working tree)
struct SeedFile { std::string name ; std::vector<uint8_t> bytes ; int format ; int ch ; bool rich ; } ;

inline void add_rich_metadata (SNDFILE *f, int ch, bool with_instrument = true)
{	sf_set_string (f, SF_STR_TITLE, "The title") ; sf_set_string (f, SF_STR_ARTIST, "An artist") ; sf_set_string (f, SF_STR_COMMENT, "odd") ; sf_set_string (f, SF_STR_COPYRIGHT, "(c)") ;
	sf_set_string (f, SF_STR_SOFTWARE, "verif") ; sf_set_string (f, SF_STR_DATE, "2001-02-03") ; sf_set_string (f, SF_STR_ALBUM, "album") ; sf_set_string (f, SF_STR_LICENSE, "lic") ; sf_set_string (f, SF_STR_TRACKNUMBER, "7") ; sf_set_string (f, SF_STR_GENRE, "genre") ;
	SF_BROADCAST_INFO bi ; memset (&bi, 0, sizeof (bi)) ; snprintf (bi.description, sizeof (bi.description), "description") ; snprintf (bi.originator, sizeof (bi.originator), "orig") ; bi.coding_history_size = (uint32_t) snprintf (bi.coding_history, sizeof (bi.coding_history), "A=PCM,F=8000,W=16,M=mono\r\n") ; sf_command (f, SFC_SET_BROADCAST_INFO, &bi, sizeof (bi)) ;
	SF_CART_INFO ci ; memset (&ci, 0, sizeof (ci)) ; snprintf (ci.version, sizeof (ci.version), "0101") ; snprintf (ci.title, sizeof (ci.title), "cart title") ; ci.tag_text_size = (uint32_t) snprintf (ci.tag_text, sizeof (ci.tag_text), "tag text") ; sf_command (f, SFC_SET_CART_INFO, &ci, sizeof (ci)) ;
	SF_CUES cues ; memset (&cues, 0, sizeof (cues)) ; cues.cue_count = 5 ; for (int i = 0 ; i < 5 ; i++) { cues.cue_points [i].indx = i + 1 ; cues.cue_points [i].position = 10 * i ; cues.cue_points [i].fcc_chunk = 0x61746164 ; cues.cue_points [i].sample_offset = 10 * i ; snprintf (cues.cue_points [i].name, sizeof (cues.cue_points [i].name), "cue%d", i) ; } sf_command (f, SFC_SET_CUE, &cues, sizeof (cues)) ;
	SF_INSTRUMENT in ; memset (&in, 0, sizeof (in)) ; if (with_instrument) { in.gain = 1 ; in.basenote = 60 ; in.detune = 3 ; in.velocity_lo = 1 ; in.velocity_hi = 127 ; in.key_lo = 0 ; in.key_hi = 127 ; in.loop_count = 2 ; in.loops [0].mode = SF_LOOP_FORWARD ; in.loops [0].start = 10 ; in.loops [0].end = 100 ; in.loops [0].count = 3 ; in.loops [1].mode = SF_LOOP_BACKWARD ; in.loops [1].start = 200 ; in.loops [1].end = 300 ; sf_command (f, SFC_SET_INSTRUMENT, &in, sizeof (in)) ; }
	std::vector<int> map ((size_t) ch) ; for (int i = 0 ; i < ch ; i++) map [i] = i == 0 ? SF_CHANNEL_MAP_LEFT : i == 1 ? SF_CHANNEL_MAP_RIGHT : SF_CHANNEL_MAP_CENTER ; sf_command (f, SFC_SET_CHANNEL_MAP_INFO, map.data (), (int) (sizeof (int) * ch)) ;
	static char payload [37] = "custom chunk payload 0123456789abcde" ;
	SF_CHUNK_INFO ck ; memset (&ck, 0, sizeof (ck)) ; snprintf (ck.id, sizeof (ck.id), "abcd") ; ck.id_size = 4 ; ck.data = payload ; ck.datalen = 37 ; sf_set_chunk (f, &ck) ;
	memset (&ck, 0, sizeof (ck)) ; snprintf (ck.id, sizeof (ck.id), "wxyz") ; ck.id_size = 4 ; ck.data = payload ; ck.datalen = 6 ; sf_set_chunk (f, &ck) ;
}

// ---- hand-built variants of layouts the library reads but never writes itself (extra block / chunk types spliced into files it wrote)
inline void put_u32 (std::vector<uint8_t> &v, uint32_t x, bool be) { for (int i = 0 ; i < 4 ; i++) v.push_back ((uint8_t) (be ? x >> (24 - 8 * i) : x >> (8 * i))) ; }
inline std::vector<uint8_t> iff_chunk (const char *id, const std::vector<uint8_t> &body, bool be)
{	std::vector<uint8_t> c (id, id + 4) ; put_u32 (c, (uint32_t) body.size (), be) ; c.insert (c.end (), body.begin (), body.end ()) ; if (body.size () & 1) c.push_back (0) ; return c ; }
inline std::vector<uint8_t> text_body (const char *t, size_t n) { std::vector<uint8_t> b (n) ; size_t l = strlen (t) ; for (size_t i = 0 ; i < n ; i++) b [i] = (uint8_t) t [i % l] ; return b ; }
// insert `extra` in front of the chunk called `before` of a RIFF / RIFX / FORM file and correct the outer size field
inline bool iff_insert (std::vector<uint8_t> &f, const char *before, const std::vector<uint8_t> &extra)
{	if (f.size () < 12) return false ; bool be = memcmp (f.data (), "FORM", 4) == 0 || memcmp (f.data (), "RIFX", 4) == 0 ;
	for (auto &k : walk_iff (f)) if (k.id == before)
	{	f.insert (f.begin () + (long) k.hdr, extra.begin (), extra.end ()) ;
		uint32_t sz = be ? rd_be32 (f.data () + 4) : rd_le32 (f.data () + 4) ; sz += (uint32_t) extra.size () ;
		for (int i = 0 ; i < 4 ; i++) f [4 + (size_t) i] = (uint8_t) (be ? sz >> (24 - 8 * i) : sz >> (8 * i)) ;
		return true ;
	}
	return false ;
}
inline std::vector<uint8_t> voc_block (int type, const std::vector<uint8_t> &body)
{	std::vector<uint8_t> b ; b.push_back ((uint8_t) type) ; b.push_back ((uint8_t) body.size ()) ; b.push_back ((uint8_t) (body.size () >> 8)) ; b.push_back ((uint8_t) (body.size () >> 16)) ; b.insert (b.end (), body.begin (), body.end ()) ; return b ; }


inline std::vector<SeedFile> c03_seeds_lib ()
{	std::vector<SeedFile> v ;
	for (auto *e : all_vio_entries ())
	{	int endian = e->format & SF_FORMAT_ENDMASK ; if (endian == SF_ENDIAN_CPU) continue ;
		for (int ch : { 1, 2 })
		{	if (std::find (e->channels.begin (), e->channels.end (), ch) == e->channels.end ()) continue ;
			int maj = e->format & SF_FORMAT_TYPEMASK ;
			bool can_rich = endian == SF_ENDIAN_FILE && (maj == SF_FORMAT_WAV || maj == SF_FORMAT_WAVEX || maj == SF_FORMAT_RF64 || maj == SF_FORMAT_AIFF || maj == SF_FORMAT_CAF || maj == SF_FORMAT_W64) ;
			for (int rich = 0 ; rich <= (can_rich ? (maj == SF_FORMAT_AIFF ? 2 : 1) : 0) ; rich++)
			{	if (rich && ch == 2 && (e->format & SF_FORMAT_SUBMASK) != SF_FORMAT_PCM_16 && (e->format & SF_FORMAT_SUBMASK) != SF_FORMAT_FLOAT) continue ;
				OpenSpec s ; s.format = e->format ; s.ch = ch ; s.rate = 8000 ; MemFile m ; SNDFILE *f = open_write_mem (m, s) ; if (!f) continue ;
				if (rich) add_rich_metadata (f, ch, rich == 1) ;
				long long N = 700 ; std::vector<short> a ((size_t) N * ch) ; Rng r ((uint64_t) e->format * 31 + ch) ; for (size_t i = 0 ; i < a.size () ; i++) a [i] = (short) (8000.0 * sin (i * 0.05) + (int) (r.next () % 600) - 300) ;
				sf_writef_short (f, a.data (), N) ; if (rich) sf_set_string (f, SF_STR_COMMENT, "a trailing comment") ; sf_close (f) ;
				v.push_back ({ format_str (e->format) + "_ch" + std::to_string (ch) + (rich == 1 ? "_rich" : rich == 2 ? "_richmark" : ""), m.data, e->format, ch, rich != 0 }) ;
			}
		}
	}
	return v ;
}

inline void c03_hand_seeds (std::vector<SeedFile> &v)
{	auto find = [&] (const std::string &name) -> const SeedFile * { for (auto &s : v) if (s.name == name) return &s ; return nullptr ; } ;
	std::vector<SeedFile> add ;
	// VOC: ASCII (5), marker (4), repeat (6) / end repeat (7) and silence (3) blocks in front of the sound data
	for (const char *base : { "VOC/PCM_U8/FILE_ch1", "VOC/PCM_16/FILE_ch2", "VOC/ULAW/FILE_ch1" }) if (const SeedFile *b = find (base))
	{	struct V { const char *tag ; std::vector<std::vector<uint8_t>> blocks ; } ;
		std::vector<V> vs = {
			{ "ascii10", { voc_block (5, text_body ("hello voc ", 10)) } },
			{ "ascii254_255_256", { voc_block (5, text_body ("abcdefg ", 254)), voc_block (5, text_body ("hijk ", 255)), voc_block (5, text_body ("lmnop ", 256)) } },
			{ "ascii4096_3000", { voc_block (5, text_body ("long text block ", 4096)), voc_block (5, text_body ("second long block ", 3000)) } },
			{ "repeat_ascii", { voc_block (6, { 2, 0 }), voc_block (5, text_body ("in a repeat ", 300)), voc_block (7, { }) } },
			{ "marker_silence", { voc_block (4, { 7, 0 }), voc_block (3, { 0x10, 0x00, 0x83 }) } } } ;
		for (auto &x : vs)
		{	if (b->bytes.size () < 26) continue ; std::vector<uint8_t> f (b->bytes.begin (), b->bytes.begin () + 26) ; for (auto &bl : x.blocks) f.insert (f.end (), bl.begin (), bl.end ()) ; f.insert (f.end (), b->bytes.begin () + 26, b->bytes.end ()) ;
			add.push_back ({ std::string (base) + "_hand_" + x.tag, f, b->format, b->ch, true }) ;
		}
	}
	// WAV family: chunks the parser knows but the writer never emits
	for (const char *base : { "WAV/PCM_16/FILE_ch2_rich", "WAVEX/PCM_16/FILE_ch1_rich", "RF64/PCM_16/FILE_ch1_rich", "WAV/IMA_ADPCM/FILE_ch1_rich" }) if (const SeedFile *b = find (base))
	{	std::vector<uint8_t> f = b->bytes, extra, adtl ; bool be = false ;
		{ std::vector<uint8_t> acid ; put_u32 (acid, 1, be) ; acid.push_back (60) ; acid.push_back (0) ; acid.push_back (0) ; acid.push_back (0) ; put_u32 (acid, 0x3f800000, be) ; put_u32 (acid, 4, be) ; acid.push_back (4) ; acid.push_back (0) ; acid.push_back (4) ; acid.push_back (0) ; put_u32 (acid, 0x42f00000, be) ; auto c = iff_chunk ("acid", acid, be) ; extra.insert (extra.end (), c.begin (), c.end ()) ; }
		for (const char *id : { "PAD ", "JUNK", "DISP", "levl", "MEXT", "afsp", "clm ", "strc", "id3 ", "iXML" }) { auto c = iff_chunk (id, text_body ("0123456789abcdef", id [0] == 'J' ? 5 : 22), be) ; extra.insert (extra.end (), c.begin (), c.end ()) ; }
		{	adtl.insert (adtl.end (), { 'a', 'd', 't', 'l' }) ;
			std::vector<uint8_t> l ; put_u32 (l, 1, be) ; auto t = text_body ("label one", 10) ; l.insert (l.end (), t.begin (), t.end ()) ; auto c = iff_chunk ("labl", l, be) ; adtl.insert (adtl.end (), c.begin (), c.end ()) ;
			std::vector<uint8_t> n ; put_u32 (n, 2, be) ; t = text_body ("a note", 7) ; n.insert (n.end (), t.begin (), t.end ()) ; c = iff_chunk ("note", n, be) ; adtl.insert (adtl.end (), c.begin (), c.end ()) ;
			std::vector<uint8_t> x ; put_u32 (x, 1, be) ; put_u32 (x, 100, be) ; put_u32 (x, 0x206e6772, be) ; for (int i = 0 ; i < 8 ; i++) x.push_back (0) ; t = text_body ("ltxt text", 9) ; x.insert (x.end (), t.begin (), t.end ()) ; c = iff_chunk ("ltxt", x, be) ; adtl.insert (adtl.end (), c.begin (), c.end ()) ;
			c = iff_chunk ("LIST", adtl, be) ; extra.insert (extra.end (), c.begin (), c.end ()) ;
			std::vector<uint8_t> ex = { 'e', 'x', 'i', 'f' } ; auto e1 = iff_chunk ("ever", text_body ("0220", 4), be) ; ex.insert (ex.end (), e1.begin (), e1.end ()) ; auto e2 = iff_chunk ("emdl", text_body ("camera model", 13), be) ; ex.insert (ex.end (), e2.begin (), e2.end ()) ; c = iff_chunk ("LIST", ex, be) ; extra.insert (extra.end (), c.begin (), c.end ()) ;
		}
		if (iff_insert (f, "data", extra)) add.push_back ({ std::string (base) + "_hand_chunks", f, b->format, b->ch, true }) ;
	}
	// AIFF / AIFC: COMT, APPL, INST, basc, MIDI, AESD in front of SSND
	for (const char *base : { "AIFF/PCM_16/FILE_ch2_rich", "AIFF/FLOAT/FILE_ch1_rich", "AIFF/IMA_ADPCM/FILE_ch1_rich", "AIFF/PCM_24/FILE_ch1_richmark", "AIFF/ULAW/FILE_ch1_richmark" }) if (const SeedFile *b = find (base))
	{	std::vector<uint8_t> f = b->bytes, extra ; bool be = true ;
		{ std::vector<uint8_t> c = { 0, 2 } ; for (int k = 0 ; k < 2 ; k++) { put_u32 (c, 0x12345678, be) ; c.push_back (0) ; c.push_back ((uint8_t) k) ; c.push_back (0) ; c.push_back (8) ; auto t = text_body ("comment ", 8) ; c.insert (c.end (), t.begin (), t.end ()) ; } auto ck = iff_chunk ("COMT", c, be) ; extra.insert (extra.end (), ck.begin (), ck.end ()) ; }
		{ std::vector<uint8_t> a = { 's', 't', 'o', 'c' } ; auto t = text_body ("\x0bhello world", 12) ; a.insert (a.end (), t.begin (), t.end ()) ; auto ck = iff_chunk ("APPL", a, be) ; extra.insert (extra.end (), ck.begin (), ck.end ()) ; }
		{ std::vector<uint8_t> in = { 60, 3, 0, 127, 1, 127, 0, 6, 0, 1, 0, 1, 0, 2, 0, 0, 0, 0, 0, 0 } ; auto ck = iff_chunk ("INST", in, be) ; extra.insert (extra.end (), ck.begin (), ck.end ()) ; }
		{ std::vector<uint8_t> ba (0x54, 0) ; ba [3] = 1 ; ba [7] = 4 ; ba [9] = 60 ; ba [11] = 1 ; ba [13] = 4 ; ba [15] = 4 ; auto ck = iff_chunk ("basc", ba, be) ; extra.insert (extra.end (), ck.begin (), ck.end ()) ; }
		for (const char *id : { "MIDI", "AESD", "ID3 ", "CHAN" }) { auto c = iff_chunk (id, text_body ("\x00\x00\x00\x65\x00\x00\x00\x00\x00\x00\x00\x00", 24), be) ; extra.insert (extra.end (), c.begin (), c.end ()) ; }
		if (iff_insert (f, "SSND", extra)) add.push_back ({ std::string (base) + "_hand_chunks", f, b->format, b->ch, true }) ;
	}
	// AIFF with two MARK chunks (the second a copy of the first, and one announcing 3000 markers) and two COMM chunks
	for (const char *base : { "AIFF/PCM_24/FILE_ch1_richmark", "AIFF/PCM_16/FILE_ch2_richmark" }) if (const SeedFile *b = find (base))
	{	for (auto &k : walk_iff (b->bytes)) if (k.id == "MARK" && k.data + k.size <= b->bytes.size ())
		{	std::vector<uint8_t> mk (b->bytes.begin () + (long) k.hdr, b->bytes.begin () + (long) (k.data + k.size + (k.size & 1))) ;
			std::vector<uint8_t> f1 = b->bytes ; if (iff_insert (f1, "SSND", mk)) add.push_back ({ std::string (base) + "_hand_mark_twice", f1, b->format, b->ch, true }) ;
			std::vector<uint8_t> mk2 = mk ; if (mk2.size () >= 10) { mk2 [8] = 0x0b ; mk2 [9] = 0xb8 ; }	// count 3000
			std::vector<uint8_t> f2 = b->bytes ; if (iff_insert (f2, "SSND", mk2)) add.push_back ({ std::string (base) + "_hand_mark_3000", f2, b->format, b->ch, true }) ;
			break ;
		}
		for (auto &k : walk_iff (b->bytes)) if (k.id == "COMM" && k.data + k.size <= b->bytes.size ())
		{	std::vector<uint8_t> cm (b->bytes.begin () + (long) k.hdr, b->bytes.begin () + (long) (k.data + k.size + (k.size & 1))) ;
			std::vector<uint8_t> f3 = b->bytes ; if (iff_insert (f3, "SSND", cm)) add.push_back ({ std::string (base) + "_hand_comm_twice", f3, b->format, b->ch, true }) ;
			break ;
		}
	}
	// WAV / WAVEX / RF64 with two 'cue ' chunks (the second a copy of the first, and one announcing 3000 cue points: over the reader's limit)
	for (const char *base : { "WAV/PCM_16/FILE_ch2_rich", "WAVEX/PCM_16/FILE_ch1_rich", "RF64/PCM_16/FILE_ch1_rich" }) if (const SeedFile *b = find (base))
	{	for (auto &k : walk_iff (b->bytes)) if (k.id == "cue " && k.data + k.size <= b->bytes.size ())
		{	std::vector<uint8_t> cu (b->bytes.begin () + (long) k.hdr, b->bytes.begin () + (long) (k.data + k.size + (k.size & 1))) ;
			std::vector<uint8_t> f1 = b->bytes ; if (iff_insert (f1, "data", cu)) add.push_back ({ std::string (base) + "_hand_cue_twice", f1, b->format, b->ch, true }) ;
			std::vector<uint8_t> cu2 = cu ; if (cu2.size () >= 12) { cu2 [8] = 0xb8 ; cu2 [9] = 0x0b ; cu2 [10] = 0 ; cu2 [11] = 0 ; }	// count 3000, little endian
			std::vector<uint8_t> f2 = b->bytes ; if (iff_insert (f2, "data", cu2)) add.push_back ({ std::string (base) + "_hand_cue_3000", f2, b->format, b->ch, true }) ;
			break ;
		}
	}
	// SVX: text chunks, CHAN, envelope chunks in front of BODY
	for (const char *base : { "SVX/PCM_S8/FILE_ch1", "SVX/PCM_16/FILE_ch1" }) if (const SeedFile *b = find (base))
	{	std::vector<uint8_t> f = b->bytes, extra ;
		for (const char *id : { "ANNO", "AUTH", "(c) ", "ATAK", "RLSE" }) { auto c = iff_chunk (id, text_body ("svx text ", 13), true) ; extra.insert (extra.end (), c.begin (), c.end ()) ; }
		{ std::vector<uint8_t> ch ; put_u32 (ch, 6, true) ; auto c = iff_chunk ("CHAN", ch, true) ; extra.insert (extra.end (), c.begin (), c.end ()) ; }
		if (iff_insert (f, "BODY", extra)) add.push_back ({ std::string (base) + "_hand_chunks", f, b->format, b->ch, true }) ;
	}
	// CAF: free / uuid / mark / strg / ovvw / midi chunks in front of the data chunk (id + 64-bit big-endian size)
	for (const char *base : { "CAF/PCM_16/FILE_ch2_rich", "CAF/ALAC_16/FILE_ch1_rich" }) if (const SeedFile *b = find (base))
	{	std::vector<uint8_t> f = b->bytes, extra ;
		for (const char *id : { "free", "uuid", "mark", "strg", "ovvw", "midi", "umid", "edct" }) { extra.insert (extra.end (), id, id + 4) ; put_u32 (extra, 0, true) ; put_u32 (extra, 28, true) ; auto t = text_body ("\x00\x00\x00\x02""caf chunk body", 28) ; extra.insert (extra.end (), t.begin (), t.end ()) ; }
		size_t pos = 0 ; bool found = false ; for (size_t i = 8 ; i + 12 < f.size () ; i++) if (memcmp (f.data () + i, "data", 4) == 0 && f [i + 4] == 0 && f [i + 5] == 0) { pos = i ; found = true ; break ; }
		if (found) { f.insert (f.begin () + (long) pos, extra.begin (), extra.end ()) ; add.push_back ({ std::string (base) + "_hand_chunks", f, b->format, b->ch, true }) ; }
	}
	v.insert (v.end (), add.begin (), add.end ()) ;
}

inline std::vector<SeedFile> c03_seeds ()
{	std::vector<SeedFile> v = c03_seeds_lib () ;
	c03_hand_seeds (v) ;
	return v ;
}

} // namespace vf
