// vf_readhist.hpp - read-side call histories against a reference stream (shared by C05 and C06).
//   case: a file (catalogue entry, channels, F frames of deterministic data) + a list of abstract ops.
//   ops are *classes* resolved against the current model state at run time, so every sub-list of a history
//   is again a valid history (rapidcheck shrinks by removing elements).
//     r<type><variant><sizeclass>     read      type s/i/f/d, variant f(rames)/i(tems), sizeclass 0..7
//     k<whence><targetclass>          seek      whence S/C/E, targetclass 0..9
//     w<frames>                       sf_read_raw of <sizeclass> frames (sample-granular codecs only)
//   oracle: reference = one sequential read of the whole file through the same type on a fresh handle.
#pragma once
#include "vf_file.hpp"

namespace vf {

struct ReadHist
{	OpenSpec spec ; long long N = 0 ; int style = 0 ; uint64_t seed = 0 ; int wt = 0 ;
	std::vector<std::string> ops ;
	bool check_tail_zero = true ;
	bool vox_allow_odd = false ;	// RAW/VOX with an odd item count is a listed crasher: sizes are forced even unless the witness asks for it
} ;

struct RefStreams
{	long long F = 0 ;			// frames reported at open
	std::vector<uint8_t> data [4] ; bool have [4] = { false, false, false, false } ;
	long long delivered [4] = { 0, 0, 0, 0 } ;
	std::vector<uint8_t> raw ; bool have_raw = false ;
} ;

inline bool build_ref (MemFile &file, const OpenSpec &spec, int t, RefStreams &ref, std::string &err)
{	if (ref.have [t]) return true ;
	MemFile copy ; copy.data = file.data ;
	SF_INFO ri ; SNDFILE *g = open_read_mem (copy, spec, &ri) ;
	if (!g) { err = std::string ("reference open failed: ") + sf_strerror (nullptr) ; return false ; }
	ref.F = ri.frames ;
	int ts = stype_size (t) ;
	long long want = ri.frames + 16 ;
	ref.data [t].assign ((size_t) want * spec.ch * ts, 0) ;
	sf_count_t got = sf_readf_t (g, t, ref.data [t].data (), want) ;
	sf_close (g) ;
	if (got < 0 || got > want) { err = "reference read returned " + std::to_string ((long long) got) ; return false ; }
	ref.delivered [t] = got ;
	ref.have [t] = true ;
	return true ;
}

inline long long size_class (int cls, long long remaining, int B, int ch, int ts, Rng &r)
{	long long big = 8192 / ((long long) ts * ch) + 1 ;
	switch (cls)
	{	case 0 : return 1 ;
		case 1 : return 2 * (long long) r.below (50) + 1 ;
		case 2 : return B > 1 ? B - 1 : 2 ;
		case 3 : return B + 1 ;
		case 4 : return big + (long long) r.below (64) ;
		case 5 : return remaining > 0 ? remaining : 1 ;
		case 6 : return remaining + 1 ;
		default : return 3 * remaining + 2 ;
	}
}

inline long long target_class (int cls, long long F, int B, long long pos, Rng &r, int ch = 1)
{	switch (cls)
	{	case 0 : return 0 ;
		case 1 : return F > 0 ? (long long) r.below ((uint64_t) F) : 0 ;
		case 2 : return B > 1 && F > B ? ((long long) r.below ((uint64_t) (F / B)) + 1) * B - 1 : F / 2 ;
		case 3 : return B > 1 && F > B ? ((long long) r.below ((uint64_t) (F / B)) + 1) * B : F / 3 ;
		case 4 : return B > 1 && F > B ? ((long long) r.below ((uint64_t) (F / B)) + 1) * B + 1 : F / 4 ;
		case 5 : return F - 1 ;
		case 6 : return F ;
		case 7 : return F + 1 + (long long) r.below (5) ;		// out of range
		case 8 : return -1 - (long long) r.below (5) ;			// out of range
		case 10 :	// what remains after the seek fills a whole number of staging buffers (8192 bytes of 1, 2, 4 or 8 byte items), so that an over-long read ends exactly on a buffer boundary
		{	static const int w [] = { 1, 2, 4, 8 } ; long long items = 8192 / w [r.below (4)] ; long long m = 1 + (long long) r.below (3) ;
			long long t = F - m * items / (ch > 0 ? ch : 1) ;
			return t >= 0 ? t : F / 2 ;
		}
		default : return pos ;
	}
}

// Runs the history. kind/detail describe the first violated clause. `stats` collects class labels.
inline Result run_read_history (const ReadHist &h, std::vector<std::string> &labels)
{	Result res ;
	auto fail = [&] (const char *kind, const std::string &d) { Result x ; x.ok = false ; x.kind = kind ; x.detail = d ; return x ; } ;
	const Codec *cd = codec_of (h.spec.format) ;
	int ch = h.spec.ch ;
	int B = nominal_block (h.spec.format, ch, h.spec.rate) ;
	// populate
	MemFile file ;
	long long N = h.N ;
	if (cd->subtype == SF_FORMAT_VOX_ADPCM && !h.vox_allow_odd && ((N * ch) & 1)) N ++ ;
	{	std::vector<long long> part ; if (N > 0) part.push_back (N) ;
		std::string e = write_whole (file, h.spec, h.wt, N, h.style, h.seed, part) ;
		if (!e.empty ()) return fail ("populate_failed", e) ;
	}
	RefStreams ref ;
	std::string err ;
	SF_INFO ri ;
	MemFile mem ; mem.data = file.data ;
	SNDFILE *f = open_read_mem (mem, h.spec, &ri) ;
	if (!f) return fail ("open_read_failed", sf_strerror (nullptr)) ;
	long long F = ri.frames ;
	long long pos = 0 ;
	Rng r (h.seed ^ 0x7ead) ;
	bool nontrivial = false ; bool seeked_mid = false ;
	int opno = 0 ;
	for (auto &op : h.ops)
	{	opno ++ ;
		std::string where = " (op " + std::to_string (opno) + " " + op + " pos=" + std::to_string (pos) + " F=" + std::to_string (F) + ")" ;
		if (op.size () >= 4 && op [0] == 'r')
		{	int t = op [1] == 's' ? T_SHORT : op [1] == 'i' ? T_INT : op [1] == 'f' ? T_FLOAT : T_DOUBLE ;
			bool items = op [2] == 'i' ; int cls = op [3] - '0' ; int ts = stype_size (t) ;
			long long remaining = F - pos ; if (remaining < 0) remaining = 0 ;
			long long fr = size_class (cls, remaining, B, ch, ts, r) ;
			if (fr > (1 << 20)) fr = 1 << 20 ;
			if (cd->subtype == SF_FORMAT_VOX_ADPCM && !h.vox_allow_odd && ((fr * ch) & 1)) { fr ++ ; labels.push_back ("excluded_known:vox_odd_forced_even") ; }
			if (!build_ref (file, h.spec, t, ref, err)) { sf_close (f) ; return fail ("reference_failed", err) ; }
			// F as delivered by the sequential reference (C04 owns "delivered == reported"); use the smaller for the EOF model
			long long Fd = ref.delivered [t] < F ? ref.delivered [t] : F ;
			size_t nitems = (size_t) fr * ch ;
			Block b (nitems * ts) ; memset (b.p, 0xA5, b.n) ;
			sf_count_t got = items ? sf_read_t (f, t, b.p, (sf_count_t) nitems) : sf_readf_t (f, t, b.p, fr) ;
			long long gfr = items ? got / ch : got ;
			if (got < 0 || (items ? got > (sf_count_t) nitems : got > fr)) { sf_close (f) ; return fail ("read_count_out_of_range", std::to_string ((long long) got) + where) ; }
			if (items && got % ch) { sf_close (f) ; return fail ("read_not_whole_frames", std::to_string ((long long) got) + where) ; }
			long long expect = pos + fr <= Fd ? fr : (Fd - pos > 0 ? Fd - pos : 0) ;
			if (gfr != expect) { sf_close (f) ; return fail (gfr < expect ? "short_read_before_end" : "read_past_end", "returned " + std::to_string (gfr) + " frames, expected " + std::to_string (expect) + where) ; }
			if (gfr > 0 && memcmp (b.p, ref.data [t].data () + (size_t) pos * ch * ts, (size_t) gfr * ch * ts) != 0)
			{	size_t i = 0 ; const uint8_t *q = ref.data [t].data () + (size_t) pos * ch * ts ;
				while (i < (size_t) gfr * ch && memcmp (b.p + i * ts, q + i * ts, ts) == 0) i ++ ;
				sf_close (f) ;
				return fail ("data_ne_reference", "item " + std::to_string (i) + " got " + hex (b.p + i * ts, ts) + " reference " + hex (q + i * ts, ts) + where) ;
			}
			if (gfr == 0)
			{	// end of data: whole requested region zero-filled, no error
				for (size_t i = 0 ; i < b.n ; i++) if (b.p [i] != 0) { sf_close (f) ; return fail ("eof_region_not_zeroed", "byte " + std::to_string (i) + where) ; }
				if (sf_error (f) != 0) { std::string e = sf_err_text (f) ; sf_close (f) ; return fail ("error_at_eof", e + where) ; }
				labels.push_back ("read:at_eof") ;
			}
			else if (gfr < fr) labels.push_back ("read:partial_at_end") ;
			pos += gfr ;
			sf_count_t hr = -2, hw = -2 ; sf_verif_get_positions (f, &hr, &hw) ;
			if (hr != pos) { sf_close (f) ; return fail ("position_not_advanced_by_count", "internal read position " + std::to_string ((long long) hr) + " model " + std::to_string (pos) + where) ; }
			if (fr % B != 0 || fr * ch * ts > 8192 || gfr < fr) nontrivial = true ;
			if (seeked_mid && gfr > 0) nontrivial = true ;
			labels.push_back (std::string ("read:") + (items ? "items" : "frames")) ;
			labels.push_back (std::string ("size:") + std::to_string (cls)) ;
		}
		else if (op.size () >= 3 && op [0] == 'k')
		{	int wh = op [1] == 'S' ? SEEK_SET : op [1] == 'C' ? SEEK_CUR : SEEK_END ;
			int cls = op [2] - '0' ;
			long long tgt = target_class (cls, F, B, pos, r, ch) ;
			long long off = wh == SEEK_SET ? tgt : wh == SEEK_CUR ? tgt - pos : tgt - F ;
			if (op.size () >= 4 && op [3] == 'R') wh |= SFM_READ ;
			sf_count_t got = sf_seek (f, off, wh) ;
			bool inrange = tgt >= 0 && tgt <= F ;
			if (!ri.seekable)
			{	if (got != -1) { sf_close (f) ; return fail ("seek_on_unseekable_succeeded", std::to_string ((long long) got) + where) ; }
				labels.push_back ("seek:unseekable") ; break ;
			}
			if (!inrange)
			{	if (got != -1) { sf_close (f) ; return fail ("out_of_range_seek_succeeded", "target " + std::to_string (tgt) + " returned " + std::to_string ((long long) got) + where) ; }
				if (sf_error (f) == 0) { sf_close (f) ; return fail ("failed_seek_without_error", where) ; }
				sf_count_t hr = -2, hw = -2 ; sf_verif_get_positions (f, &hr, &hw) ;
				if (hr != pos) { sf_close (f) ; return fail ("failed_seek_moved_position", std::to_string ((long long) hr) + where) ; }
				labels.push_back ("seek:out_of_range") ;
				// the error stays recorded until the next successful call clears it; nothing more to check
			}
			else if (got == -1)
			{	if (sf_error (f) == 0) { sf_close (f) ; return fail ("failed_seek_without_error", where) ; }
				labels.push_back ("seek:refused_by_codec") ;
				break ;		// the statement allows -1 with an error; the stream position after it is not specified
			}
			else
			{	if (got != tgt) { sf_close (f) ; return fail ("seek_returned_wrong_position", "target " + std::to_string (tgt) + " returned " + std::to_string ((long long) got) + where) ; }
				pos = tgt ;
				if (tgt > 0 && tgt < F) seeked_mid = true ;
				labels.push_back (tgt == 0 ? "seek:to0" : tgt == F ? "seek:toF" : (B > 1 && tgt % B) ? "seek:midblock" : "seek:inside") ;
			}
			sf_count_t cur = sf_seek (f, 0, SEEK_CUR) ;
			if (cur != pos) { sf_close (f) ; return fail ("seek_cur_ne_position", "SEEK_CUR 0 reports " + std::to_string ((long long) cur) + " model " + std::to_string (pos) + where) ; }
		}
		else if (op.size () >= 2 && op [0] == 'w')
		{	if (!is_granular (h.spec.format)) continue ;
			int cls = op [1] - '0' ; int bw = cd->bytes * ch ;
			long long remaining = F - pos ; if (remaining < 0) remaining = 0 ;
			long long fr = size_class (cls, remaining, 1, ch, cd->bytes, r) ;
			if (!ref.have_raw)
			{	MemFile copy ; copy.data = file.data ; SF_INFO i2 ; SNDFILE *g = open_read_mem (copy, h.spec, &i2) ;
				if (!g) { sf_close (f) ; return fail ("reference_failed", "raw reference open") ; }
				ref.raw.assign ((size_t) (i2.frames + 4) * bw, 0) ;
				sf_count_t n = sf_read_raw (g, ref.raw.data (), (sf_count_t) ref.raw.size ()) ; sf_close (g) ;
				// the stream ends at F frames: bytes after that (RIFF/IFF pad byte, trailing chunks) are not audio
				if (n > i2.frames * bw) n = i2.frames * bw ;
				ref.raw.resize (n > 0 ? (size_t) n : 0) ; ref.have_raw = true ;
			}
			Block b ((size_t) fr * bw) ; memset (b.p, 0xA5, b.n) ;
			sf_count_t got = sf_read_raw (f, b.p, (sf_count_t) b.n) ;
			if (got < 0 || got > (sf_count_t) b.n) { sf_close (f) ; return fail ("raw_count_out_of_range", std::to_string ((long long) got) + where) ; }
			long long avail = (long long) ref.raw.size () - pos * bw ; if (avail < 0) avail = 0 ;
			long long expect = (long long) b.n <= avail ? (long long) b.n : avail ;
			if (got != expect) { sf_close (f) ; return fail ("raw_count_wrong", "returned " + std::to_string ((long long) got) + " expected " + std::to_string (expect) + where) ; }
			if (got > 0 && memcmp (b.p, ref.raw.data () + (size_t) pos * bw, (size_t) got) != 0) { sf_close (f) ; return fail ("raw_data_ne_reference", where) ; }
			pos += got / bw ;
			sf_count_t hr = -2, hw = -2 ; sf_verif_get_positions (f, &hr, &hw) ;
			if (hr != pos) { sf_close (f) ; return fail ("position_not_advanced_by_count", "raw: internal " + std::to_string ((long long) hr) + " model " + std::to_string (pos) + where) ; }
			labels.push_back ("read:raw") ;
			nontrivial = true ;
		}
		int inv = sf_verif_check_invariants (f) ;
		if (inv) { sf_close (f) ; return fail ("invariant", "mask " + std::to_string (inv) + where) ; }
	}
	int cr = sf_close (f) ;
	if (cr != 0) return fail ("close_failed", std::to_string (cr)) ;
	res.nontrivial = nontrivial ;
	return res ;
}

// ---- generators
inline std::string gen_read_op (bool allow_raw)
{	static const char tc [] = "sifd" ;
	int k = *rangeOf<int> (0, allow_raw ? 10 : 9) ;
	if (k == 10) return std::string ("w") + (char) ('0' + *rangeOf<int> (0, 7)) ;
	std::string s = "r" ;
	s += tc [*rangeOf<int> (0, 3)] ;
	s += *rangeOf<int> (0, 1) ? 'i' : 'f' ;
	s += (char) ('0' + *rangeOf<int> (0, 7)) ;
	return s ;
}
inline std::string gen_seek_op ()
{	static const char wc [] = "SCE" ;
	std::string s = "k" ;
	s += wc [*rangeOf<int> (0, 2)] ;
	s += (char) ('0' + *rangeOf<int> (0, 10)) ;
	if (*rangeOf<int> (0, 3) == 0) s += 'R' ;
	return s ;
}

inline std::string join_ops (const std::vector<std::string> &v) { std::string s ; for (size_t i = 0 ; i < v.size () ; i++) { if (i) s += ' ' ; s += v [i] ; } return s ; }

inline ReadHist hist_from_case (const Case &c)
{	ReadHist h ;
	h.spec.format = (int) c.geti ("format") ; h.spec.ch = (int) c.geti ("ch") ; h.spec.rate = (int) c.geti ("rate", 44100) ;
	h.N = c.geti ("n") ; h.style = style_from (c.gets ("style")) ; h.seed = (uint64_t) c.geti ("seed") ; h.wt = stype_from (c.gets ("wt", "short")) ;
	std::string ops = c.gets ("ops") ;
	if (!ops.empty ()) h.ops = split (ops, ' ') ;
	h.vox_allow_odd = c.geti ("vox_allow_odd", 0) != 0 ;
	return h ;
}

inline Case read_sig_of (const Case &c)
{	int format = (int) c.geti ("format") ;
	Case s ;
	s.set ("container", major_name (format)) ;
	const Codec *cd = codec_of (format) ; s.set ("codec", cd ? cd->name : "?") ;
	s.set ("endian", endian_name (format)) ;
	return s ;
}

} // namespace vf
