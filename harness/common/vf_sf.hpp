// vf_sf.hpp - libsndfile-facing building blocks: MemVIO (virtual I/O over a byte vector with
// counters, work budget and an optional fault plan), the format catalogue (enumerated from the
// library at run time, annotated from the format definitions), typed read/write dispatch,
// deterministic sample generators, and small independent chunk walkers.
#pragma once
#include "vf_core.hpp"
#include <sndfile.h>
#include <cmath>
#include <memory>

extern "C" {
// hooks compiled into the library under -DLIBSNDFILE_VERIF (see MANIFEST.hooks)
int sf_verif_check_invariants (SNDFILE *sndfile) ;
void sf_verif_get_positions (SNDFILE *sndfile, sf_count_t *rd, sf_count_t *wr) ;
}

namespace vf {

// ---------------------------------------------------------------- pinned clock (linked with --wrap=time,gettimeofday)
inline long &pinned_time () { static long t = 1700000000 ; return t ; }

// ---------------------------------------------------------------- MemVIO
struct MemFile
{	std::vector<uint8_t> data ;
	sf_count_t pos = 0 ;
	// counters
	long n_len = 0, n_seek = 0, n_read = 0, n_write = 0, n_tell = 0 ;
	long long bytes_read = 0, bytes_written = 0 ;
	// work budget: total callbacks since reset_budget(); exceeded => flag (checked by harness after each API call)
	long long budget_calls = 0, budget_limit = -1 ; bool budget_blown = false ; bool budget_fatal = false ; bool budget_trap = false ;
	// fault plan (C15): fault fires at callback index fault_at (1-based over all callbacks), kind, persistent
	long cb_index = 0 ; long fault_at = -1 ; int fault_kind = 0 ; bool fault_persistent = false ; bool fault_fired = false ;
	long fault_consumed = 0 ; char cur_cb = '?', fault_cb = '?' ;	// which callback the (first) fault hit: l s r w t
	bool read_only = false ;
	size_t max_size = (size_t) 1 << 30 ;

	void reset_counters () { n_len = n_seek = n_read = n_write = n_tell = 0 ; bytes_read = bytes_written = 0 ; cb_index = 0 ; }
	void reset_budget (long long limit) { budget_calls = 0 ; budget_limit = limit ; budget_blown = false ; }
	long total_cb () const { return n_len + n_seek + n_read + n_write + n_tell ; }
	bool tick ()
	{	cb_index ++ ; budget_calls ++ ;
		if (budget_limit >= 0 && budget_calls > budget_limit)
		{	budget_blown = true ;
			// the library is spinning on the I/O layer without ever returning: the only way out is to end the process.
			// Exit code 97 is read by the drivers as "unbounded work" for the case in current.case.
			if (budget_fatal) { static const char msg [] = "VERIF: I/O work budget exceeded (library call does not return)\n" ; if (write (2, msg, sizeof (msg) - 1) < 0) { } if (budget_trap) __builtin_trap () ; _exit (97) ; }
		}
		if (fault_at > 0 && (cb_index == fault_at || (fault_persistent && fault_fired && cb_index > fault_at)))
		{	if (!fault_fired) fault_cb = cur_cb ; fault_fired = true ; return true ; }
		return false ;
	}
} ;

enum FaultKind { FK_NONE = 0, FK_ZERO = 1, FK_SHORT = 2, FK_SEEKFAIL = 3, FK_LEN_BIG = 4, FK_LEN_SMALL = 5, FK_LEN_HUGE = 6, FK_COUNT } ;
static const char *fault_kind_name [] = { "none", "zero", "short", "seekfail", "len_big", "len_small", "len_huge" } ;

inline sf_count_t mv_filelen (void *u)
{	MemFile *m = (MemFile *) u ; m->cur_cb = 'l' ; m->n_len ++ ;
	bool f = m->tick () ;
	sf_count_t len = (sf_count_t) m->data.size () ;
	if (f)
	{	if (m->fault_kind == FK_LEN_BIG) { m->fault_consumed ++ ; return len + 4096 ; }
		if (m->fault_kind == FK_LEN_SMALL) { m->fault_consumed ++ ; return len > 17 ? len - 17 : 0 ; }
		if (m->fault_kind == FK_LEN_HUGE) { m->fault_consumed ++ ; return (sf_count_t) 0x7fffffffffff0000ll ; }
	}
	return len ;
}
inline sf_count_t mv_seek (sf_count_t offset, int whence, void *u)
{	MemFile *m = (MemFile *) u ; m->cur_cb = 's' ; m->n_seek ++ ;
	bool f = m->tick () ;
	if (f && m->fault_kind == FK_SEEKFAIL) { m->fault_consumed ++ ; return -1 ; }
	sf_count_t np ;
	switch (whence)
	{	case SEEK_SET : np = offset ; break ;
		case SEEK_CUR : np = m->pos + offset ; break ;
		case SEEK_END : np = (sf_count_t) m->data.size () + offset ; break ;
		default : return -1 ;
	}
	if (np < 0) return -1 ;
	m->pos = np ;
	return np ;
}
inline sf_count_t mv_read (void *ptr, sf_count_t count, void *u)
{	MemFile *m = (MemFile *) u ; m->cur_cb = 'r' ; m->n_read ++ ;
	bool f = m->tick () ;
	if (count <= 0) return 0 ;
	sf_count_t avail = (sf_count_t) m->data.size () - m->pos ;
	if (avail < 0) avail = 0 ;
	sf_count_t n = count < avail ? count : avail ;
	if (f && m->fault_kind == FK_ZERO) { m->fault_consumed ++ ; return 0 ; }
	if (f && m->fault_kind == FK_SHORT) { m->fault_consumed ++ ; n = (n + 1) / 2 ; }
	if (n > 0) memcpy (ptr, m->data.data () + m->pos, (size_t) n) ;
	m->pos += n ; m->bytes_read += n ;
	return n ;
}
inline sf_count_t mv_write (const void *ptr, sf_count_t count, void *u)
{	MemFile *m = (MemFile *) u ; m->cur_cb = 'w' ; m->n_write ++ ;
	bool f = m->tick () ;
	if (count <= 0) return 0 ;
	if (m->read_only) return 0 ;
	sf_count_t n = count ;
	if (f && m->fault_kind == FK_ZERO) { m->fault_consumed ++ ; return 0 ; }
	if (f && m->fault_kind == FK_SHORT) { m->fault_consumed ++ ; n = (n + 1) / 2 ; }
	if ((size_t) (m->pos + n) > m->max_size) return 0 ;
	if ((size_t) (m->pos + n) > m->data.size ()) m->data.resize ((size_t) (m->pos + n), 0) ;
	memcpy (m->data.data () + m->pos, ptr, (size_t) n) ;
	m->pos += n ; m->bytes_written += n ;
	return n ;
}
inline sf_count_t mv_tell (void *u)
{	MemFile *m = (MemFile *) u ; m->cur_cb = 't' ; m->n_tell ++ ; m->tick () ;
	return m->pos ;
}
inline SF_VIRTUAL_IO *memvio ()
{	static SF_VIRTUAL_IO v = { mv_filelen, mv_seek, mv_read, mv_write, mv_tell } ;
	return &v ;
}
inline SNDFILE *open_mem (MemFile &m, int mode, SF_INFO *info)
{	m.pos = 0 ;
	return sf_open_virtual (memvio (), mode, info, &m) ;
}

// ---------------------------------------------------------------- sample types
enum SType { T_SHORT = 0, T_INT = 1, T_FLOAT = 2, T_DOUBLE = 3 } ;
static const char *stype_name [] = { "short", "int", "float", "double" } ;
inline int stype_size (int t) { static const int s [] = { 2, 4, 4, 8 } ; return s [t] ; }
inline int stype_from (const std::string &s) { for (int i = 0 ; i < 4 ; i++) if (s == stype_name [i]) return i ; return 0 ; }

// items variant
inline sf_count_t sf_read_t (SNDFILE *f, int t, void *buf, sf_count_t items)
{	switch (t)
	{	case T_SHORT : return sf_read_short (f, (short *) buf, items) ;
		case T_INT : return sf_read_int (f, (int *) buf, items) ;
		case T_FLOAT : return sf_read_float (f, (float *) buf, items) ;
		default : return sf_read_double (f, (double *) buf, items) ;
	}
}
inline sf_count_t sf_readf_t (SNDFILE *f, int t, void *buf, sf_count_t frames)
{	switch (t)
	{	case T_SHORT : return sf_readf_short (f, (short *) buf, frames) ;
		case T_INT : return sf_readf_int (f, (int *) buf, frames) ;
		case T_FLOAT : return sf_readf_float (f, (float *) buf, frames) ;
		default : return sf_readf_double (f, (double *) buf, frames) ;
	}
}
inline sf_count_t sf_write_t (SNDFILE *f, int t, const void *buf, sf_count_t items)
{	switch (t)
	{	case T_SHORT : return sf_write_short (f, (const short *) buf, items) ;
		case T_INT : return sf_write_int (f, (const int *) buf, items) ;
		case T_FLOAT : return sf_write_float (f, (const float *) buf, items) ;
		default : return sf_write_double (f, (const double *) buf, items) ;
	}
}
inline sf_count_t sf_writef_t (SNDFILE *f, int t, const void *buf, sf_count_t frames)
{	switch (t)
	{	case T_SHORT : return sf_writef_short (f, (const short *) buf, frames) ;
		case T_INT : return sf_writef_int (f, (const int *) buf, frames) ;
		case T_FLOAT : return sf_writef_float (f, (const float *) buf, frames) ;
		default : return sf_writef_double (f, (const double *) buf, frames) ;
	}
}

// exact-size heap block (ASan redzones on both sides): any access outside [0,n) is a report
struct Block
{	uint8_t *p = nullptr ; size_t n = 0 ;
	explicit Block (size_t bytes) : n (bytes) { p = (uint8_t *) malloc (bytes ? bytes : 1) ; if (bytes == 0) { /* keep 1-byte block, logical size 0 */ } }
	~Block () { free (p) ; }
	Block (const Block &) = delete ; Block &operator= (const Block &) = delete ;
} ;

// ---------------------------------------------------------------- format catalogue
struct Codec
{	int subtype ; const char *name ;
	int width ;			// significant bits for integer-like lossless codecs (0 = not integer-lossless)
	bool is_float ;		// FLOAT / DOUBLE
	int block ;			// nominal block length B in frames (1 = sample granular); 0 = taken from file (WAV/W64 ADPCM)
	bool granular ;		// sample-granular (raw read/write meaningful, RDWR capable)
	int bytes ;			// bytes per sample for granular encodings
} ;
static const Codec codec_table [] =
{	{ SF_FORMAT_PCM_S8, "PCM_S8", 8, false, 1, true, 1 },
	{ SF_FORMAT_PCM_16, "PCM_16", 16, false, 1, true, 2 },
	{ SF_FORMAT_PCM_24, "PCM_24", 24, false, 1, true, 3 },
	{ SF_FORMAT_PCM_32, "PCM_32", 32, false, 1, true, 4 },
	{ SF_FORMAT_PCM_U8, "PCM_U8", 8, false, 1, true, 1 },
	{ SF_FORMAT_FLOAT, "FLOAT", 0, true, 1, true, 4 },
	{ SF_FORMAT_DOUBLE, "DOUBLE", 0, true, 1, true, 8 },
	{ SF_FORMAT_ULAW, "ULAW", 0, false, 1, true, 1 },
	{ SF_FORMAT_ALAW, "ALAW", 0, false, 1, true, 1 },
	{ SF_FORMAT_IMA_ADPCM, "IMA_ADPCM", 0, false, 0, false, 0 },
	{ SF_FORMAT_MS_ADPCM, "MS_ADPCM", 0, false, 0, false, 0 },
	{ SF_FORMAT_GSM610, "GSM610", 0, false, 160, false, 0 },
	{ SF_FORMAT_VOX_ADPCM, "VOX_ADPCM", 0, false, 2, false, 0 },
	{ SF_FORMAT_NMS_ADPCM_16, "NMS_ADPCM_16", 0, false, 160, false, 0 },
	{ SF_FORMAT_NMS_ADPCM_24, "NMS_ADPCM_24", 0, false, 160, false, 0 },
	{ SF_FORMAT_NMS_ADPCM_32, "NMS_ADPCM_32", 0, false, 160, false, 0 },
	{ SF_FORMAT_G721_32, "G721_32", 0, false, 120, false, 0 },
	{ SF_FORMAT_G723_24, "G723_24", 0, false, 120, false, 0 },
	{ SF_FORMAT_G723_40, "G723_40", 0, false, 120, false, 0 },
	{ SF_FORMAT_DWVW_12, "DWVW_12", 12, false, 1, false, 0 },
	{ SF_FORMAT_DWVW_16, "DWVW_16", 16, false, 1, false, 0 },
	{ SF_FORMAT_DWVW_24, "DWVW_24", 24, false, 1, false, 0 },
	{ SF_FORMAT_DWVW_N, "DWVW_N", 0, false, 1, false, 0 },
	{ SF_FORMAT_DPCM_8, "DPCM_8", 0, false, 1, false, 0 },
	{ SF_FORMAT_DPCM_16, "DPCM_16", 16, false, 1, false, 0 },
	{ SF_FORMAT_ALAC_16, "ALAC_16", 16, false, 1, false, 0 },
	{ SF_FORMAT_ALAC_20, "ALAC_20", 20, false, 1, false, 0 },
	{ SF_FORMAT_ALAC_24, "ALAC_24", 24, false, 1, false, 0 },
	{ SF_FORMAT_ALAC_32, "ALAC_32", 32, false, 1, false, 0 },
} ;
inline const Codec *codec_of (int format)
{	int s = format & SF_FORMAT_SUBMASK ;
	for (auto &c : codec_table) if (c.subtype == s) return &c ;
	return nullptr ;
}
struct MajorName { int major ; const char *name ; } ;
static const MajorName major_names [] =
{	{ SF_FORMAT_WAV, "WAV" }, { SF_FORMAT_AIFF, "AIFF" }, { SF_FORMAT_AU, "AU" }, { SF_FORMAT_RAW, "RAW" },
	{ SF_FORMAT_PAF, "PAF" }, { SF_FORMAT_SVX, "SVX" }, { SF_FORMAT_NIST, "NIST" }, { SF_FORMAT_VOC, "VOC" },
	{ SF_FORMAT_IRCAM, "IRCAM" }, { SF_FORMAT_W64, "W64" }, { SF_FORMAT_MAT4, "MAT4" }, { SF_FORMAT_MAT5, "MAT5" },
	{ SF_FORMAT_PVF, "PVF" }, { SF_FORMAT_XI, "XI" }, { SF_FORMAT_HTK, "HTK" }, { SF_FORMAT_SDS, "SDS" },
	{ SF_FORMAT_AVR, "AVR" }, { SF_FORMAT_WAVEX, "WAVEX" }, { SF_FORMAT_SD2, "SD2" }, { SF_FORMAT_FLAC, "FLAC" },
	{ SF_FORMAT_CAF, "CAF" }, { SF_FORMAT_WVE, "WVE" }, { SF_FORMAT_OGG, "OGG" }, { SF_FORMAT_MPC2K, "MPC2K" },
	{ SF_FORMAT_RF64, "RF64" }, { SF_FORMAT_MPEG, "MPEG" },
} ;
inline const char *major_name (int format)
{	int m = format & SF_FORMAT_TYPEMASK ;
	for (auto &x : major_names) if (x.major == m) return x.name ;
	return "?" ;
}
inline const char *endian_name (int format)
{	switch (format & SF_FORMAT_ENDMASK)
	{	case SF_ENDIAN_LITTLE : return "LE" ; case SF_ENDIAN_BIG : return "BE" ; case SF_ENDIAN_CPU : return "CPU" ; default : return "FILE" ; }
}
inline std::string format_str (int format)
{	const Codec *c = codec_of (format) ;
	char b [96] ; snprintf (b, sizeof (b), "%s/%s/%s", major_name (format), c ? c->name : "?", endian_name (format)) ;
	return b ;
}

struct FmtEntry
{	int format ;				// major | subtype | endian
	std::vector<int> channels ;	// accepted channel counts among the probe set
	int maxch ;
	const Codec *codec ;
	bool vio_ok ;				// usable through virtual I/O (SD2 is not)
} ;

inline bool fmt_check (int format, int ch, int rate = 44100)
{	SF_INFO i ; memset (&i, 0, sizeof (i)) ; i.format = format ; i.channels = ch ; i.samplerate = rate ;
	return sf_format_check (&i) != 0 ;
}

inline std::vector<int> enumerate_majors ()
{	std::vector<int> v ; int n = 0 ; sf_command (nullptr, SFC_GET_FORMAT_MAJOR_COUNT, &n, sizeof (n)) ;
	for (int k = 0 ; k < n ; k++) { SF_FORMAT_INFO fi ; fi.format = k ; if (sf_command (nullptr, SFC_GET_FORMAT_MAJOR, &fi, sizeof (fi)) == 0) v.push_back (fi.format) ; }
	return v ;
}
inline std::vector<int> enumerate_subtypes ()
{	std::vector<int> v ; int n = 0 ; sf_command (nullptr, SFC_GET_FORMAT_SUBTYPE_COUNT, &n, sizeof (n)) ;
	for (int k = 0 ; k < n ; k++) { SF_FORMAT_INFO fi ; fi.format = k ; if (sf_command (nullptr, SFC_GET_FORMAT_SUBTYPE, &fi, sizeof (fi)) == 0) v.push_back (fi.format) ; }
	return v ;
}

// Catalogue of writable (major, subtype, endian) triples, from the library's own enumeration.
// with_endians: include explicit LITTLE/BIG/CPU options in addition to FILE.
inline const std::vector<FmtEntry> &catalogue ()
{	static std::vector<FmtEntry> cat ;
	if (!cat.empty ()) return cat ;
	static const int probe [] = { 1, 2, 3, 4, 5, 6, 7, 8, 9, 16, 32, 100, 255, 256, 257, 1024 } ;
	static const int ends [] = { SF_ENDIAN_FILE, SF_ENDIAN_LITTLE, SF_ENDIAN_BIG, SF_ENDIAN_CPU } ;
	for (int maj : enumerate_majors ())
		for (int sub : enumerate_subtypes ())
			for (int e : ends)
			{	FmtEntry fe ; fe.format = maj | sub | e ; fe.maxch = 0 ;
				for (int ch : probe) if (fmt_check (fe.format, ch)) { fe.channels.push_back (ch) ; fe.maxch = ch ; }
				if (fe.channels.empty ()) continue ;
				fe.codec = codec_of (fe.format) ;
				if (!fe.codec) continue ;
				fe.vio_ok = (maj != SF_FORMAT_SD2) ;
				cat.push_back (fe) ;
			}
	return cat ;
}

// ---------------------------------------------------------------- deterministic sample data
// styles
enum Style { ST_NOISE = 0, ST_EXTREME, ST_CONST, ST_RAMP, ST_LOWAMP, ST_SINE, ST_COUNT } ;
static const char *style_name [] = { "noise", "extreme", "const", "ramp", "lowamp", "sine" } ;

// integer sample of `width` significant bits, MSB-aligned in a `tbits`-bit container (16 or 32)
inline int32_t gen_int_sample (Rng &r, int style, size_t i, int width, int tbits, int64_t cval)
{	int w = width < tbits ? width : tbits ;
	int64_t lo = -((int64_t) 1 << (w - 1)), hi = ((int64_t) 1 << (w - 1)) - 1 ;
	int64_t v ;
	switch (style)
	{	case ST_NOISE : v = r.range (lo, hi) ; break ;
		case ST_EXTREME : { static const int64_t pat [] = { 0, 1, -1, 2, -2 } ; uint64_t k = r.below (9) ;
			v = k == 0 ? lo : k == 1 ? hi : k == 2 ? lo + 1 : k == 3 ? hi - 1 : pat [k - 4] ; if (v < lo) v = lo ; if (v > hi) v = hi ; break ; }
		case ST_CONST : v = lo + (int64_t) ((uint64_t) cval % (uint64_t) (hi - lo + 1)) ; break ;
		case ST_RAMP : v = lo + (int64_t) (((uint64_t) i * 37 + (uint64_t) cval) % (uint64_t) (hi - lo + 1)) ; break ;
		case ST_LOWAMP : v = r.range (-3, 3) ; if (v < lo) v = lo ; if (v > hi) v = hi ; break ;
		default : v = (int64_t) (0.8 * hi * sin (0.05 * (double) i + (double) (cval & 7))) ; break ;
	}
	return (int32_t) ((uint64_t) v << (tbits - w)) ;
}
// float sample in [-1,1) (norm range) or "wide" (any finite bit pattern)
inline double gen_unit_sample (Rng &r, int style, size_t i, int64_t cval)
{	switch (style)
	{	case ST_NOISE : return r.unit () * 2.0 - 1.0 ;
		case ST_EXTREME : { uint64_t k = r.below (8) ; static const double e [] = { 0.0, -1.0, 1.0 - 1.0 / 16777216.0, -0.5, 0.5, 1.0 / 32768.0, -1.0 / 32768.0, 0.999 } ; return e [k] ; }
		case ST_CONST : return (double) (cval % 2001 - 1000) / 1001.0 ;
		case ST_RAMP : return (double) ((int64_t) ((i * 13 + (uint64_t) cval) % 2000) - 1000) / 1000.5 ;
		case ST_LOWAMP : return (r.unit () - 0.5) / 4096.0 ;
		default : return 0.8 * sin (0.05 * (double) i + (double) (cval & 7)) ;
	}
}
inline float finite_float_bits (Rng &r)
{	for ( ; ; )
	{	uint32_t b = (uint32_t) r.next () ;
		if (((b >> 23) & 0xff) == 0xff) continue ;
		float f ; memcpy (&f, &b, 4) ; return f ;
	}
}
inline double finite_double_bits (Rng &r)
{	for ( ; ; )
	{	uint64_t b = r.next () ;
		if (((b >> 52) & 0x7ff) == 0x7ff) continue ;
		double d ; memcpy (&d, &b, 8) ; return d ;
	}
}

// Fill `items` samples of type t. width: significant bits for integer types (<= type bits).
// For float/double: mode 0 = normalised range [-1,1), 1 = arbitrary finite bit patterns (style noise only),
// 2 = (double only) float-representable values.
inline void gen_samples (void *dst, int t, size_t items, int width, int style, uint64_t seed, int fmode = 0)
{	Rng r (seed) ; int64_t cval = (int64_t) (r.next () >> 8) ;
	for (size_t i = 0 ; i < items ; i++)
	{	switch (t)
		{	case T_SHORT : ((short *) dst) [i] = (short) gen_int_sample (r, style, i, width, 16, cval) ; break ;
			case T_INT : ((int *) dst) [i] = gen_int_sample (r, style, i, width, 32, cval) ; break ;
			case T_FLOAT :
				if (fmode == 1 && style == ST_NOISE) ((float *) dst) [i] = finite_float_bits (r) ;
				else ((float *) dst) [i] = (float) gen_unit_sample (r, style, i, cval) ;
				break ;
			default :
				if (fmode == 1 && style == ST_NOISE) ((double *) dst) [i] = finite_double_bits (r) ;
				else if (fmode == 2) ((double *) dst) [i] = (double) (style == ST_NOISE && (seed & 1) ? finite_float_bits (r) : (float) gen_unit_sample (r, style, i, cval)) ;
				else ((double *) dst) [i] = gen_unit_sample (r, style, i, cval) ;
				break ;
		}
	}
}

// ---------------------------------------------------------------- write partitions
// A partition is a list of frame counts whose sum is N; negative entries mean "use the item variant".
inline std::vector<long long> make_partition (Rng &r, long long N, int B, int ch, int bytes_per_item)
{	std::vector<long long> p ; long long left = N ;
	long long big = 8192 / (bytes_per_item * ch) + 1 ;
	while (left > 0)
	{	long long k ;
		switch (r.below (7))
		{	case 0 : k = 1 ; break ;
			case 1 : k = 2 * (long long) r.below (40) + 1 ; break ;
			case 2 : k = B > 1 ? B - 1 : 3 ; break ;
			case 3 : k = B + 1 ; break ;
			case 4 : k = big + (long long) r.below (100) ; break ;
			case 5 : k = left ; break ;
			default : k = 1 + (long long) r.below ((uint64_t) (left > 600 ? 600 : left)) ; break ;
		}
		if (k > left) k = left ;
		if (k < 1) k = 1 ;
		left -= k ;
		p.push_back (r.below (2) ? -k : k) ;
	}
	return p ;
}

// ---------------------------------------------------------------- independent chunk walkers
inline uint32_t rd_le32 (const uint8_t *p) { return p [0] | (p [1] << 8) | (p [2] << 16) | ((uint32_t) p [3] << 24) ; }
inline uint32_t rd_be32 (const uint8_t *p) { return p [3] | (p [2] << 8) | (p [1] << 16) | ((uint32_t) p [0] << 24) ; }
inline uint16_t rd_le16 (const uint8_t *p) { return (uint16_t) (p [0] | (p [1] << 8)) ; }
inline uint64_t rd_le64 (const uint8_t *p) { return (uint64_t) rd_le32 (p) | ((uint64_t) rd_le32 (p + 4) << 32) ; }

struct ChunkPos { std::string id ; size_t hdr ; size_t data ; uint64_t size ; } ;
// RIFF/RIFX/RF64 (little endian sizes only; RIFX not produced by the writer) and AIFF/AIFC (big endian)
inline std::vector<ChunkPos> walk_iff (const std::vector<uint8_t> &d)
{	std::vector<ChunkPos> v ;
	if (d.size () < 12) return v ;
	bool be = memcmp (d.data (), "FORM", 4) == 0 || memcmp (d.data (), "RIFX", 4) == 0 ;
	size_t off = 12 ;
	while (off + 8 <= d.size ())
	{	ChunkPos c ; c.id.assign ((const char *) d.data () + off, 4) ; c.hdr = off ; c.data = off + 8 ;
		c.size = be ? rd_be32 (d.data () + off + 4) : rd_le32 (d.data () + off + 4) ;
		v.push_back (c) ;
		if (c.size == 0xffffffffu) break ;	// RF64 placeholder: real size lives in ds64; stop walking
		off = c.data + (size_t) c.size + (c.size & 1) ;
	}
	return v ;
}
// samples-per-block written in the fmt chunk of a WAV / WAVEX / RF64 / W64 ADPCM file (0 if not found)
inline int adpcm_samples_per_block (const std::vector<uint8_t> &d)
{	if (d.size () > 12 && (memcmp (d.data (), "RIFF", 4) == 0 || memcmp (d.data (), "RF64", 4) == 0 || memcmp (d.data (), "RIFX", 4) == 0))
	{	bool be = d [3] == 'X' ;
		for (auto &c : walk_iff (d))
			if (c.id == "fmt " && c.size >= 20 && c.data + 20 <= d.size ())
			{	const uint8_t *q = d.data () + c.data + 18 ; return be ? (q [0] << 8 | q [1]) : rd_le16 (q) ; }
		return 0 ;
	}
	if (d.size () > 40 && memcmp (d.data (), "riff", 4) == 0)
	{	size_t off = 40 ;	// riff GUID(16)+size(8)+wave GUID(16)
		while (off + 24 <= d.size ())
		{	uint64_t sz = rd_le64 (d.data () + off + 16) ;
			if (memcmp (d.data () + off, "fmt ", 4) == 0 && off + 24 + 20 <= d.size ()) return rd_le16 (d.data () + off + 24 + 18) ;
			if (sz < 24) break ;
			off += (size_t) ((sz + 7) & ~(uint64_t) 7) ;
		}
	}
	return 0 ;
}

// ---------------------------------------------------------------- small helpers
inline std::string sf_err_text (SNDFILE *f) { const char *s = sf_strerror (f) ; return s ? s : "(null)" ; }

// private scratch directory (also TMPDIR for the library's ALAC temp files)
inline const std::string &scratch_dir ()
{	static std::string d ;
	if (d.empty ())
	{	std::string base = env ("VERIF_SCRATCH", "/verif/build/scratch") ;
		mkdir (base.c_str (), 0777) ;
		d = base + "/p" + std::to_string ((long) getpid ()) ;
		mkdir (d.c_str (), 0777) ;
		// pids are recycled: a directory left behind by a process that was killed must not leak files (SD2 resource
		// forks "._name", ALAC temp files) into this run
		{	DIR *dir = opendir (d.c_str ()) ;
			if (dir) { while (auto *e = readdir (dir)) { std::string n = e->d_name ; if (n != "." && n != "..") unlink ((d + "/" + n).c_str ()) ; } closedir (dir) ; }
		}
		setenv ("TMPDIR", d.c_str (), 1) ;
		// work inside it: for a descriptor or virtual-I/O handle the library probes resource forks relative to the current directory
		// ("._", ".AppleDouble/"), and writes one there for SD2 - a stray "._" in the directory the check was started from once made
		// unrecognisable bytes fail differently per route
		if (chdir (d.c_str ()) != 0) { }
	}
	return d ;
}
inline std::vector<std::string> list_dir (const std::string &d)
{	std::vector<std::string> v ; DIR *dir = opendir (d.c_str ()) ; if (!dir) return v ;
	while (auto *e = readdir (dir)) { std::string n = e->d_name ; if (n != "." && n != "..") v.push_back (n) ; }
	closedir (dir) ; std::sort (v.begin (), v.end ()) ; return v ;
}
inline void rm_scratch ()
{	const std::string &d = scratch_dir () ;
	for (auto &n : list_dir (d)) unlink ((d + "/" + n).c_str ()) ;
	rmdir (d.c_str ()) ;
}
inline bool write_file (const std::string &path, const std::vector<uint8_t> &d)
{	FILE *f = fopen (path.c_str (), "wb") ; if (!f) return false ;
	size_t w = d.empty () ? 0 : fwrite (d.data (), 1, d.size (), f) ; fclose (f) ; return w == d.size () ;
}
inline bool read_file (const std::string &path, std::vector<uint8_t> &d)
{	FILE *f = fopen (path.c_str (), "rb") ; if (!f) return false ;
	d.clear () ; uint8_t buf [65536] ; size_t n ;
	while ((n = fread (buf, 1, sizeof (buf), f)) > 0) d.insert (d.end (), buf, buf + n) ;
	fclose (f) ; return true ;
}

} // namespace vf

// pinned clock: the harness binaries are linked with -Wl,--wrap=time -Wl,--wrap=gettimeofday
#include <sys/time.h>
#include <ctime>
extern "C" {
time_t __real_time (time_t *) ;
int __real_gettimeofday (struct timeval *, void *) ;
time_t __wrap_time (time_t *t) { time_t v = (time_t) vf::pinned_time () ; if (t) *t = v ; return v ; }
int __wrap_gettimeofday (struct timeval *tv, void *) { if (tv) { tv->tv_sec = vf::pinned_time () ; tv->tv_usec = 0 ; } return 0 ; }
}
