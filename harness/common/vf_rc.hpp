// vf_rc.hpp - rapidcheck glue: generator helpers and the generic main for generated-case harnesses.
#pragma once
#include "vf_sf.hpp"
#include <rapidcheck.h>

namespace vf {

// inRange collapses at small sizes unless resized: always draw at full size
template <class T> inline rc::Gen<T> rangeOf (T lo, T hi_inclusive)
{	return rc::gen::resize (1000, rc::gen::inRange<T> (lo, (T) (hi_inclusive + 1))) ; }

inline rc::Gen<uint64_t> seedGen () { return rc::gen::resize (1000, rc::gen::inRange<uint64_t> (0, 1ull << 40)) ; }

// frame-count generator biased to block edges, the 8 KiB staging boundary and ALAC's 4096 packet edge
inline rc::Gen<long long> lengthGen (int B, long long maxN)
{	std::vector<long long> edges = { 0, 1, 2, 3, 4095, 4096, 4097, 8191, 8192, 8193 } ;
	if (B > 1) for (int k = 1 ; k <= 4 ; k++) { edges.push_back ((long long) k * B - 1) ; edges.push_back ((long long) k * B) ; edges.push_back ((long long) k * B + 1) ; }
	std::vector<long long> ok ;
	for (auto e : edges) if (e <= maxN) ok.push_back (e) ;
	long long mid = maxN < 700 ? maxN : 700 ;
	return rc::gen::weightedOneOf<long long> ({
		{ 4, rc::gen::elementOf (ok) },
		{ 4, rangeOf<long long> (0, mid) },
		{ 2, rangeOf<long long> (0, maxN) } }) ;
}

// Pick a catalogue entry: half of the draws uniform over (major, subtype, endian) triples, half uniform over
// codecs first (so the rare codecs - ALAC, DWVW, DPCM, ADPCM families - are not starved by the many PCM triples).
inline const FmtEntry *pickEntry (const std::vector<const FmtEntry *> &dom)
{	if (*rangeOf<int> (0, 1) == 0) return *rc::gen::elementOf (dom) ;
	std::vector<int> codecs ;
	for (auto *e : dom) { int s = e->format & SF_FORMAT_SUBMASK ; if (std::find (codecs.begin (), codecs.end (), s) == codecs.end ()) codecs.push_back (s) ; }
	int sub = *rc::gen::elementOf (codecs) ;
	std::vector<const FmtEntry *> sel ;
	for (auto *e : dom) if ((e->format & SF_FORMAT_SUBMASK) == sub) sel.push_back (e) ;
	return *rc::gen::elementOf (sel) ;
}
// channel count for an entry: mostly 1 / 2 / small, sometimes the large accepted counts
inline int pickChannels (const FmtEntry *e, int large_one_in = 10)
{	std::vector<int> small, large ;
	for (int ch : e->channels) (ch <= 8 ? small : large).push_back (ch) ;
	if (!large.empty () && *rangeOf<int> (0, large_one_in - 1) == 0) return *rc::gen::elementOf (large) ;
	int k = *rangeOf<int> (0, 9) ;
	if (k < 3) return small.front () ;
	if (k < 6 && small.size () > 1) return small [1] ;
	return *rc::gen::elementOf (small) ;
}

// Generic main: `gen` is called inside the rapidcheck property (may use *gen), `run` executes a case.
template <class GenFn>
inline int rc_main (Ctx &ctx, GenFn gen, const RunFn &run, const SigFn &sig)
{	if (!ctx.replay.empty ()) return replay_main (ctx, run) ;
	char params [256] ;
	snprintf (params, sizeof (params), "seed=%llu max_success=%lld max_size=%d max_discard_ratio=100 verbose_progress=0 verbose_shrinking=0",
		(unsigned long long) ctx.seed, ctx.cases, ctx.size) ;
	setenv ("RC_PARAMS", params, 1) ;
	bool ok = rc::check (ctx.property, [&] ()
	{	Case c = gen () ;
		bool bad = execute (ctx, c, run, sig) ;
		RC_ASSERT (!bad) ;
	}) ;
	ctx.flush (true) ;
	if (!ok || ctx.have_failure)
	{	ctx.ev.violations ++ ; ctx.flush (true) ;
		fprintf (outf (), "FAIL %s kind=%s detail=%s\n", ctx.path ("failing.case").c_str (), ctx.failing_res.kind.c_str (), ctx.failing_res.detail.c_str ()) ;
		return 1 ;
	}
	fprintf (outf (), "OK evaluations=%lld distinct_nontrivial=%zu known_hits=%lld excluded=%lld skipped_budget=%lld\n",
		ctx.ev.evaluations, ctx.ev.distinct.size (), ctx.ev.known_hits, ctx.ev.excluded_known, ctx.ev.skipped_budget) ;
	return 0 ;
}

} // namespace vf
