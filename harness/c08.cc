// C08 - read/write mode keeps independent, correct read and write positions.
// case: RDWR-capable sample-granular format x channels x start state (empty | pre-populated) x history of
//       write / read / seek (whence x {both, SFM_READ, SFM_WRITE}) / truncate / update-header / close+reopen;
// oracle: in-memory model (frame vector with "unspecified" marks for gaps, rpos, wpos, len).
// Real files by path, because SFC_FILE_TRUNCATE needs ftruncate().
#include "vf_file.hpp"
using namespace vf ;

static Ctx ctx ;

// ---- value domain: integers v that survive every API type exactly (NORM_FLOAT/DOUBLE off on the handle)
struct Dom { int kind ; int w ; } ;	// kind 0 PCM (width w), 1 float/double file, 2 u-law, 3 A-law
static Dom dom_of (int format)
{	switch (format & SF_FORMAT_SUBMASK)
	{	case SF_FORMAT_PCM_S8 : case SF_FORMAT_PCM_U8 : return { 0, 8 } ; case SF_FORMAT_PCM_16 : return { 0, 16 } ;
		case SF_FORMAT_PCM_24 : return { 0, 24 } ; case SF_FORMAT_PCM_32 : return { 0, 32 } ;
		case SF_FORMAT_FLOAT : case SF_FORMAT_DOUBLE : return { 1, 16 } ;
		case SF_FORMAT_ULAW : return { 2, 16 } ; default : return { 3, 16 } ;
	}
}
static int ulaw_dec (int code) { int u = ~code & 0xff ; int mag = ((((u & 15) << 3) + 0x84) << ((u >> 4) & 7)) - 0x84 ; return (u & 0x80) ? -mag : mag ; }
static int alaw_dec (int code) { int a = code ^ 0x55 ; int t = (a & 15) << 4 ; int seg = (a & 0x70) >> 4 ; if (seg == 0) t += 8 ; else if (seg == 1) t += 0x108 ; else { t += 0x108 ; t <<= seg - 1 ; } return (a & 0x80) ? t : -t ; }
static const long long GAP = 1ll << 62 ;
static long long gen_value (const Dom &d, Rng &r)
{	if (d.kind == 0)
	{	long long v = r.range (-(1ll << (d.w - 1)), (1ll << (d.w - 1)) - 1) ;
		if (d.w > 16) v &= ~((1ll << (d.w - 16)) - 1) ;
		return v ;
	}
	if (d.kind == 1) return r.range (-32768, 32767) ;
	int code = (int) r.below (256) ; if (d.kind == 2 && code == 0x7f) code = 0xff ;	// one representative of the two mu-law zero codes
	return d.kind == 2 ? ulaw_dec (code) : alaw_dec (code) ;
}
static void to_api (const Dom &d, long long v, int T, void *out)
{	long long s, i ;
	if (d.kind == 0) { s = d.w <= 16 ? (long long) ((unsigned long long) v << (16 - d.w)) : v >> (d.w - 16) ; i = (long long) ((unsigned long long) v << (32 - d.w)) ; }
	else if (d.kind == 1) { s = v ; i = v ; }
	else { s = v ; i = (long long) ((unsigned long long) v << 16) ; }
	switch (T) { case T_SHORT : *(short *) out = (short) s ; break ; case T_INT : *(int *) out = (int) i ; break ; case T_FLOAT : *(float *) out = (float) v ; break ; default : *(double *) out = (double) v ; break ; }
}

struct Model { std::vector<long long> fr ; long long rpos = 0, wpos = 0 ; int ch = 1 ; long long len () const { return (long long) fr.size () / ch ; } } ;

static std::vector<const FmtEntry *> &domain ()
{	static std::vector<const FmtEntry *> d ;
	if (!d.empty ()) return d ;
	std::string probe = scratch_dir () + "/c08_probe.dat" ;
	for (auto &e : catalogue ())
	{	if (!is_granular (e.format)) continue ;
		SF_INFO i ; memset (&i, 0, sizeof (i)) ; i.format = e.format ; i.channels = e.channels.front () ; i.samplerate = 44100 ;
		unlink (probe.c_str ()) ;
		SNDFILE *f = sf_open (probe.c_str (), SFM_RDWR, &i) ;
		if (f) { sf_close (f) ; d.push_back (&e) ; }
	}
	unlink (probe.c_str ()) ;
	return d ;
}

static std::string gen_op ()
{	static const char tc [] = "sifd" ;
	int k = *rangeOf<int> (0, 11) ;
	std::string s ;
	if (k <= 3) { s = "w" ; s += tc [*rangeOf<int> (0, 3)] ; s += *rangeOf<int> (0, 1) ? 'i' : 'f' ; s += std::to_string (*rc::gen::element (1, 2, 3, 5, 17, 300, 3000)) ; }
	else if (k <= 6) { s = "r" ; s += tc [*rangeOf<int> (0, 3)] ; s += *rangeOf<int> (0, 1) ? 'i' : 'f' ; s += std::to_string (*rc::gen::element (1, 2, 3, 5, 17, 300, 5000)) ; }
	else if (k <= 9) { s = "k" ; s += "SCE" [*rangeOf<int> (0, 2)] ; s += "BRW" [*rangeOf<int> (0, 2)] ; s += (char) ('0' + *rangeOf<int> (0, 7)) ; }
	else if (k == 10) { int j = *rangeOf<int> (0, 3) ; s = j == 0 ? "u" : j == 1 ? "c" : std::string ("t") + (char) ('0' + *rangeOf<int> (0, 3)) ; }
	else { s = "t" ; s += (char) ('0' + *rangeOf<int> (0, 3)) ; }
	return s ;
}

static Case gen_case ()
{	const FmtEntry *e = pickEntry (domain ()) ;
	Case c ;
	c.set ("fmt", format_str (e->format)) ; c.seti ("format", e->format) ;
	// (until fix dc01712 the pad byte of an odd data size was delivered as audio; 1-byte encodings with odd channel counts in padded
	// containers were excluded here then - they are generated again)
	// AIFF keeps its pad frame: "at most one pad frame where a container pads odd byte counts" is allowed by C04, so a model that
	// counts frames exactly cannot cover AIFF 1-byte encodings with odd channel counts; every other padded container is exact now
	bool aiff1 = (e->format & SF_FORMAT_TYPEMASK) == SF_FORMAT_AIFF && e->codec->bytes == 1 ;
	std::vector<int> chs ; for (int ch : e->channels) if (ch <= 8 && !(aiff1 && (ch & 1))) chs.push_back (ch) ;
	if (chs.empty ()) chs.push_back (e->channels.front ()) ;
	c.seti ("ch", *rc::gen::elementOf (chs)) ;
	c.seti ("pre", *rc::gen::element (0, 0, 1, 7, 100, 1000)) ;
	c.seti ("seed", (long long) *seedGen ()) ;
	int nops = *rangeOf<int> (1, 30) ; std::vector<std::string> ops ;
	for (int i = 0 ; i < nops ; i++) ops.push_back (gen_op ()) ;
	std::string s ; for (size_t i = 0 ; i < ops.size () ; i++) { if (i) s += ' ' ; s += ops [i] ; }
	c.set ("ops", s) ;
	return c ;
}

static Case sig_of (const Case &c)
{	int format = (int) c.geti ("format") ; Case s ;
	s.set ("container", major_name (format)) ; const Codec *cd = codec_of (format) ; s.set ("codec", cd ? cd->name : "?") ; s.set ("endian", endian_name (format)) ;
	return s ;
}

static void prep (SNDFILE *f) { sf_command (f, SFC_SET_NORM_FLOAT, nullptr, SF_FALSE) ; sf_command (f, SFC_SET_NORM_DOUBLE, nullptr, SF_FALSE) ; }

static Result run_case (const Case &c)
{	Result r ; r.sig = sig_of (c) ;
	int format = (int) c.geti ("format") ; int ch = (int) c.geti ("ch") ; long long pre = c.geti ("pre") ;
	r.sig.seti ("databytes", pre * ch * codec_of (format)->bytes) ; uint64_t seed = (uint64_t) c.geti ("seed") ;
	Dom d = dom_of (format) ; const Codec *cd = codec_of (format) ; int maj = format & SF_FORMAT_TYPEMASK ;
	std::vector<std::string> ops = split (c.gets ("ops"), ' ') ;
	r.dhash = fnv_str (c.gets ("fmt") + "|" + c.gets ("ch") + "|" + c.gets ("pre") + "|" + c.gets ("ops")) ;
	r.classes = { std::string ("container:") + major_name (format), std::string ("codec:") + cd->name, std::string ("start:") + (pre ? "populated" : "empty") } ;
	auto fail = [&] (const char *kind, const std::string &dd) { Result x = r ; x.ok = false ; x.kind = kind ; x.detail = dd ; return x ; } ;
	std::string fname = scratch_dir () + "/c08_" + std::to_string ((long) getpid ()) + ".dat" ; unlink (fname.c_str ()) ;
	Rng rng (seed) ; Model m ; m.ch = ch ;
	SF_INFO info ; memset (&info, 0, sizeof (info)) ; info.format = format ; info.channels = ch ; info.samplerate = 44100 ;
	if (pre > 0)
	{	SF_INFO wi = info ; SNDFILE *w = sf_open (fname.c_str (), SFM_WRITE, &wi) ; if (!w) return fail ("populate_open_failed", sf_strerror (nullptr)) ;
		std::vector<int> buf ((size_t) pre * ch) ;
		for (auto &x : buf) { long long v = gen_value (d, rng) ; m.fr.push_back (v) ; to_api (d, v, T_INT, &x) ; }
		if (sf_writef_int (w, buf.data (), pre) != pre) { sf_close (w) ; unlink (fname.c_str ()) ; return fail ("populate_failed", "") ; }
		sf_close (w) ;
	}
	SF_INFO oi = info ; if (pre > 0 && maj != SF_FORMAT_RAW) memset (&oi, 0, sizeof (oi)) ;
	// SD2: a headerless data fork whose first bytes look like another container is taken for that container (finding listed under C01 / C04 too)
	if ((format & SF_FORMAT_TYPEMASK) == SF_FORMAT_SD2 && pre > 0)
	{	std::vector<uint8_t> fork ; read_file (fname, fork) ; MemFile probe ; probe.data = fork ; SF_INFO pi ; memset (&pi, 0, sizeof (pi)) ;
		SNDFILE *pf = open_mem (probe, SFM_READ, &pi) ; if (pf) { sf_close (pf) ; r.sig.set ("sd2_datafork_looks_like", major_name (pi.format)) ; }
	}
	SNDFILE *f = sf_open (fname.c_str (), SFM_RDWR, &oi) ;
	if (!f) { unlink (fname.c_str ()) ; return fail ("rdwr_open_failed", sf_strerror (nullptr)) ; }
	prep (f) ;
	auto positions_ok = [&] (std::string &why) -> bool
	{	sf_count_t rp = sf_seek (f, 0, SEEK_CUR | SFM_READ), wp = sf_seek (f, 0, SEEK_CUR | SFM_WRITE) ;
		if (rp != m.rpos) { why = "read position " + std::to_string ((long long) rp) + " model " + std::to_string (m.rpos) ; return false ; }
		if (wp != m.wpos) { why = "write position " + std::to_string ((long long) wp) + " model " + std::to_string (m.wpos) ; return false ; }
		SF_INFO ci ; memset (&ci, 0, sizeof (ci)) ; sf_command (f, SFC_GET_CURRENT_SF_INFO, &ci, sizeof (ci)) ;
		if (ci.frames != m.len ()) { why = "frame count " + std::to_string ((long long) ci.frames) + " model " + std::to_string (m.len ()) ; return false ; }
		return true ;
	} ;
	// after an RDWR open of an existing file the write pointer may start at 0 or at the end: observe, but only those two
	{	sf_count_t wp = sf_seek (f, 0, SEEK_CUR | SFM_WRITE) ; if (wp != 0 && wp != m.len ()) { sf_close (f) ; unlink (fname.c_str ()) ; return fail ("initial_write_position", std::to_string ((long long) wp)) ; } m.wpos = wp ; m.rpos = 0 ; }
	bool nt = false ; int opno = 0 ; bool wrote_after_read_elsewhere = false ; long long last_read_end = -1 ;
	for (auto &op : ops)
	{	opno ++ ; if (op.empty ()) continue ;
		std::string where = " (op " + std::to_string (opno) + " " + op + " rpos=" + std::to_string (m.rpos) + " wpos=" + std::to_string (m.wpos) + " len=" + std::to_string (m.len ()) + ")" ;
		auto bail = [&] (const char *kind, const std::string &dd) { sf_close (f) ; unlink (fname.c_str ()) ; return fail (kind, dd + where) ; } ;
		if (op [0] == 'w' && op.size () >= 4)
		{	int T = op [1] == 's' ? T_SHORT : op [1] == 'i' ? T_INT : op [1] == 'f' ? T_FLOAT : T_DOUBLE ; bool items = op [2] == 'i' ; long long k = atoll (op.c_str () + 3) ;
			if (d.kind >= 2 && T >= T_FLOAT) T = T - 2 ;	// G.711: exact only through the integer entry points (see DESIGN C08)
			int ts = stype_size (T) ; Block b ((size_t) k * ch * ts) ; std::vector<long long> vals ((size_t) k * ch) ;
			for (size_t i = 0 ; i < vals.size () ; i++) { vals [i] = gen_value (d, rng) ; to_api (d, vals [i], T, b.p + i * ts) ; }
			sf_count_t got = items ? sf_write_t (f, T, b.p, k * ch) : sf_writef_t (f, T, b.p, k) ;
			if (got != (items ? k * ch : k)) return bail ("write_count", "returned " + std::to_string ((long long) got) + " err=" + sf_err_text (f)) ;
			if (m.wpos > m.len ()) m.fr.resize ((size_t) m.wpos * ch, GAP) ;
			if (m.wpos + k > m.len ()) m.fr.resize ((size_t) (m.wpos + k) * ch, GAP) ;
			for (size_t i = 0 ; i < vals.size () ; i++) m.fr [(size_t) m.wpos * ch + i] = vals [i] ;
			if (last_read_end >= 0 && m.wpos != last_read_end) wrote_after_read_elsewhere = true ;
			m.wpos += k ;
			r.classes.push_back (m.wpos < m.len () ? "write:overwrite" : "write:extend") ;
		}
		else if (op [0] == 'r' && op.size () >= 4)
		{	int T = op [1] == 's' ? T_SHORT : op [1] == 'i' ? T_INT : op [1] == 'f' ? T_FLOAT : T_DOUBLE ; bool items = op [2] == 'i' ; long long k = atoll (op.c_str () + 3) ;
			int ts = stype_size (T) ; Block b ((size_t) k * ch * ts) ; memset (b.p, 0xA5, b.n) ;
			sf_count_t got = items ? sf_read_t (f, T, b.p, k * ch) : sf_readf_t (f, T, b.p, k) ; long long gfr = items ? got / ch : got ;
			long long expect = m.rpos >= m.len () ? 0 : std::min (k, m.len () - m.rpos) ;
			if (gfr != expect || (items && got % ch)) return bail ("read_count", "returned " + std::to_string ((long long) got) + " expected frames " + std::to_string (expect)) ;
			for (size_t i = 0 ; i < (size_t) gfr * ch ; i++)
			{	long long v = m.fr [(size_t) m.rpos * ch + i] ; if (v == GAP) continue ;
				uint8_t exp [8] ; to_api (d, v, T, exp) ;
				if (memcmp (exp, b.p + i * ts, ts) != 0) return bail ("read_data", "item " + std::to_string (i) + " got " + hex (b.p + i * ts, ts) + " model " + hex (exp, ts) + " (file value " + std::to_string (v) + ")") ;
			}
			m.rpos += gfr ; last_read_end = m.rpos ;
			r.classes.push_back ("read") ;
		}
		else if (op [0] == 'k' && op.size () >= 4)
		{	int W = op [1] == 'S' ? SEEK_SET : op [1] == 'C' ? SEEK_CUR : SEEK_END ; char M = op [2] ; int cls = op [3] - '0' ; long long len = m.len () ;
			long long tgt ;
			switch (cls) { case 0 : tgt = 0 ; break ; case 1 : tgt = len > 0 ? (long long) rng.below ((uint64_t) len + 1) : 0 ; break ; case 2 : tgt = len ; break ; case 3 : tgt = len > 0 ? len - 1 : 0 ; break ;
				case 4 : tgt = m.rpos ; break ; case 5 : tgt = m.wpos ; break ; case 6 : tgt = len + 1 + (long long) rng.below (3) ; break ; default : tgt = -1 - (long long) rng.below (3) ; break ; }
			if (cls == 6 && M != 'W') tgt = len ;	// seeking the read pointer past the end is not specified for RDWR: keep it in range
			if (tgt > len && M == 'W' && m.rpos > len) { }
			long long base ;
			if (W == SEEK_SET) base = 0 ; else if (W == SEEK_END) base = len ;
			else { if (M == 'B' && m.rpos != m.wpos) continue ;	// plain SEEK_CUR with different pointers: the docs do not say which it is relative to
				base = M == 'W' ? m.wpos : m.rpos ; }
			int whence = W | (M == 'R' ? SFM_READ : M == 'W' ? SFM_WRITE : 0) ;
			if (W == SEEK_CUR && tgt - base == 0 && M == 'B') continue ;	// zero-offset plain SEEK_CUR in RDWR performs a real seek: excluded (documented in DESIGN 3.1)
			sf_count_t got = sf_seek (f, tgt - base, whence) ;
			if (tgt < 0)
			{	if (got != -1) return bail ("negative_seek_succeeded", std::to_string ((long long) got)) ;
				if (sf_error (f) == 0) return bail ("failed_seek_without_error", "") ;
			}
			else
			{	if (got != tgt) return bail ("seek_result", "target " + std::to_string (tgt) + " returned " + std::to_string ((long long) got) + " err=" + sf_err_text (f)) ;
				if (M == 'B' || M == 'R') m.rpos = tgt ; if (M == 'B' || M == 'W') m.wpos = tgt ;
				if (M != 'B') nt = true ;
				r.classes.push_back (std::string ("seek:") + (M == 'B' ? "both" : M == 'R' ? "read_only" : "write_only")) ;
				if (M == 'R' || M == 'B') last_read_end = -1 ;
			}
		}
		else if (op [0] == 't' && op.size () >= 2)
		{	int cls = op [1] - '0' ; long long len = m.len () ; long long n = cls == 0 ? 0 : cls == 1 ? (len > 0 ? (long long) rng.below ((uint64_t) len + 1) : 0) : cls == 2 ? len : (len > 0 ? len - 1 : 0) ;
			sf_count_t nn = n ; int rc = sf_command (f, SFC_FILE_TRUNCATE, &nn, sizeof (nn)) ;
			if (rc != 0) return bail ("truncate_failed", "returned " + std::to_string (rc) + " err=" + sf_err_text (f)) ;
			m.fr.resize ((size_t) n * ch) ; m.rpos = n ; m.wpos = n ; nt = true ; last_read_end = -1 ;
			r.classes.push_back ("truncate") ;
		}
		else if (op [0] == 'u') { sf_command (f, SFC_UPDATE_HEADER_NOW, nullptr, 0) ; r.classes.push_back ("update_header") ; }
		else if (op [0] == 'c')
		{	if (sf_close (f) != 0) { unlink (fname.c_str ()) ; return fail ("close_failed", where) ; }
			SF_INFO ri ; memset (&ri, 0, sizeof (ri)) ; if (maj == SF_FORMAT_RAW || m.len () == 0) ri = info ;
			if (m.len () == 0 && maj != SF_FORMAT_RAW) { /* an empty file of this container: the header decides */ memset (&ri, 0, sizeof (ri)) ; struct stat sb ; if (stat (fname.c_str (), &sb) != 0 || sb.st_size == 0) ri = info ; }
			f = sf_open (fname.c_str (), SFM_RDWR, &ri) ;
			if (!f) { unlink (fname.c_str ()) ; r.sig.seti ("databytes", m.len () * ch * cd->bytes) ; return fail ("rdwr_reopen_failed", std::string (sf_strerror (nullptr)) + where) ; }
			prep (f) ;
			if (ri.frames != m.len ()) return bail ("reopen_frames", std::to_string ((long long) ri.frames)) ;
			sf_count_t wp = sf_seek (f, 0, SEEK_CUR | SFM_WRITE) ; if (wp != 0 && wp != m.len ()) return bail ("initial_write_position", std::to_string ((long long) wp)) ;
			m.wpos = wp ; m.rpos = 0 ; last_read_end = -1 ;
			r.classes.push_back ("close_reopen") ;
		}
		else continue ;
		std::string why ; if (!positions_ok (why)) return bail ("positions", why) ;
		int inv = sf_verif_check_invariants (f) ; if (inv) return bail ("invariant", "mask " + std::to_string (inv)) ;
	}
	if (sf_close (f) != 0) { unlink (fname.c_str ()) ; return fail ("close_failed", "final") ; }
	// fresh read-only open sees exactly the model
	SF_INFO ri ; memset (&ri, 0, sizeof (ri)) ; if (maj == SF_FORMAT_RAW) ri = info ;
	SNDFILE *g = sf_open (fname.c_str (), SFM_READ, &ri) ;
	if (!g) { struct stat sb ; bool empty = stat (fname.c_str (), &sb) == 0 && sb.st_size == 0 ; unlink (fname.c_str ()) ; if (empty && m.len () == 0) { r.nontrivial = nt ; return r ; } r.sig.seti ("databytes", m.len () * ch * cd->bytes) ; return fail ("final_open_failed", sf_strerror (nullptr)) ; }
	prep (g) ;
	Result res = r ;
	if (ri.frames != m.len ()) { res = fail ("final_frames", "file reports " + std::to_string ((long long) ri.frames) + " model " + std::to_string (m.len ())) ; }
	else
	{	std::vector<int> buf ((size_t) m.len () * ch + 1) ; sf_count_t got = sf_readf_int (g, buf.data (), m.len ()) ;
		if (got != m.len ()) res = fail ("final_read_count", std::to_string ((long long) got)) ;
		else for (size_t i = 0 ; i < (size_t) m.len () * ch ; i++)
		{	if (m.fr [i] == GAP) continue ; int exp ; to_api (d, m.fr [i], T_INT, &exp) ;
			if (buf [i] != exp) { res = fail ("final_data", "item " + std::to_string (i) + " file " + std::to_string (buf [i]) + " model " + std::to_string (exp)) ; break ; }
		}
	}
	sf_close (g) ; unlink (fname.c_str ()) ;
	res.nontrivial = nt || wrote_after_read_elsewhere ;
	std::sort (res.classes.begin (), res.classes.end ()) ; res.classes.erase (std::unique (res.classes.begin (), res.classes.end ()), res.classes.end ()) ;
	return res ;
}

int main (int argc, char **argv)
{	init_io () ;
	ctx.property = "C08" ;
	ctx.parse (argc, argv) ;
	scratch_dir () ;
	if (!ctx.replay.empty ()) { int rc = replay_main (ctx, run_case) ; rm_scratch () ; return rc ; }
	// bounded-exhaustive part: every history of depth <= D over a 12-letter concrete alphabet on representative formats
	long long worker = ctx.opti ("worker", 0), workers = ctx.opti ("workers", 1) ;
	static const char *alpha [] = { "wsf3", "wfi2", "wdf300", "rsf2", "rff5", "kSB0", "kSR1", "kSW1", "kER0", "kCW0", "t1", "c" } ;
	static const int reps [] = { SF_FORMAT_WAV | SF_FORMAT_PCM_16, SF_FORMAT_AIFF | SF_FORMAT_PCM_24, SF_FORMAT_AU | SF_FORMAT_ULAW, SF_FORMAT_RAW | SF_FORMAT_FLOAT, SF_FORMAT_W64 | SF_FORMAT_DOUBLE, SF_FORMAT_CAF | SF_FORMAT_PCM_32, SF_FORMAT_RF64 | SF_FORMAT_PCM_U8 } ;
	int depth = ctx.thorough ? 4 : 3 ; bool failed = false ; long idx = 0 ;
	for (int fmt : reps) for (int pre : { 0, 7 })
	{	std::vector<int> stack ;
		std::function<void (int)> rec = [&] (int dleft)
		{	if (failed) return ;
			if (!stack.empty () && (idx ++ % workers) == worker)
			{	Case c ; c.set ("fmt", format_str (fmt)) ; c.seti ("format", fmt) ; c.seti ("ch", 2) ; c.seti ("pre", pre) ; c.seti ("seed", 5) ;
				std::string s ; for (size_t i = 0 ; i < stack.size () ; i++) { if (i) s += ' ' ; s += alpha [stack [i]] ; } c.set ("ops", s) ;
				if (execute (ctx, c, run_case, sig_of)) failed = true ;
				ctx.ev.extra ["bounded_exhaustive_histories"] ++ ;
			}
			if (dleft == 0) return ;
			for (int a = 0 ; a < 12 ; a++) { stack.push_back (a) ; rec (dleft - 1) ; stack.pop_back () ; }
		} ;
		rec (depth) ;
	}
	ctx.flush (true) ;
	if (failed) { rm_scratch () ; fprintf (outf (), "FAIL %s kind=%s detail=%s\n", ctx.path ("failing.case").c_str (), ctx.failing_res.kind.c_str (), ctx.failing_res.detail.c_str ()) ; return 1 ; }
	int rc = rc_main (ctx, gen_case, run_case, sig_of) ;
	rm_scratch () ;
	return rc ;
}
