// C10 - sf_format_check agrees with what can really be written; format lists are sound.
// Complete enumeration: majors x subtypes (both from the library's own lists) x endian {FILE,LITTLE,BIG,CPU} x
// channels {0,1,2,3,8,9,256,257,1024,1025} x samplerate {-1,0,1,8000,44100,2^31-1}; plus every index of the three
// enumeration commands incl. out-of-range ones.  thorough adds every channel count 1..1025 at 44100 Hz.
#include "vf_file.hpp"
using namespace vf ;

static Ctx ctx ;

static Case sig_of (const Case &c)
{	int format = (int) c.geti ("format") ;
	Case s ;
	s.set ("container", major_name (format)) ;
	const Codec *cd = codec_of (format) ; s.set ("codec", cd ? cd->name : "?") ;
	s.set ("endian", endian_name (format)) ;
	return s ;
}

static Result run_point (const Case &c)
{	Result r ;
	int format = (int) c.geti ("format") ; int ch = (int) c.geti ("ch") ; int rate = (int) c.geti ("rate") ;
	int maj = format & SF_FORMAT_TYPEMASK ;
	r.sig = sig_of (c) ;
	r.nontrivial = true ;
	r.dhash = fnv_str (c.gets ("format") + "|" + c.gets ("ch") + "|" + c.gets ("rate")) ;
	auto fail = [&] (const char *kind, const std::string &d) { Result x = r ; x.ok = false ; x.kind = kind ; x.detail = d ; return x ; } ;
	SF_INFO wi ; memset (&wi, 0, sizeof (wi)) ; wi.format = format ; wi.channels = ch ; wi.samplerate = rate ;
	bool chk = sf_format_check (&wi) != 0 ;
	bool path = maj == SF_FORMAT_SD2 ;
	MemFile mem ; std::string fname = scratch_dir () + "/c10.dat" ;
	SF_INFO oi = wi ;
	if (path) unlink (fname.c_str ()) ;
	SNDFILE *f = path ? sf_open (fname.c_str (), SFM_WRITE, &oi) : open_mem (mem, SFM_WRITE, &oi) ;
	r.classes = { chk ? "check:TRUE" : "check:FALSE", std::string ("container:") + major_name (format) } ;
	if (!chk)
	{	if (f) { sf_close (f) ; if (path) unlink (fname.c_str ()) ; return fail ("rejected_but_opens", "sf_format_check FALSE but sf_open(SFM_WRITE) succeeded") ; }
		if (sf_error (nullptr) == 0) return fail ("failed_open_without_error", "") ;
		if (path) unlink (fname.c_str ()) ;
		return r ;
	}
	if (!f) return fail ("accepted_but_open_fails", std::string ("sf_format_check TRUE but open fails: ") + sf_strerror (nullptr)) ;
	// 4 frames through each of the four sample types
	for (int t = 0 ; t < 4 ; t++)
	{	int ts = stype_size (t) ; Block b ((size_t) 4 * ch * ts) ; fill_any (b.p, t, (size_t) 4 * ch, ST_RAMP, 77 + t) ;
		sf_count_t w = sf_writef_t (f, t, b.p, 4) ;
		if (w != 4) { std::string d = std::string ("sf_writef_") + stype_name [t] + " returned " + std::to_string ((long long) w) + " err=" + sf_err_text (f) ; sf_close (f) ; if (path) unlink (fname.c_str ()) ; return fail ("accepted_but_write_fails", d) ; }
	}
	int cr = sf_close (f) ;
	if (cr != 0) { if (path) unlink (fname.c_str ()) ; return fail ("accepted_but_close_fails", std::to_string (cr)) ; }
	SF_INFO ri ; memset (&ri, 0, sizeof (ri)) ;
	if (maj == SF_FORMAT_RAW) { ri.format = format ; ri.channels = ch ; ri.samplerate = rate ; }
	SNDFILE *g = path ? sf_open (fname.c_str (), SFM_READ, &ri) : open_mem (mem, SFM_READ, &ri) ;
	if (path) unlink (fname.c_str ()) ;
	if (!g) return fail ("accepted_but_reopen_fails", sf_strerror (nullptr)) ;
	sf_close (g) ;
	if ((ri.format & SF_FORMAT_TYPEMASK) != maj || (ri.format & SF_FORMAT_SUBMASK) != (format & SF_FORMAT_SUBMASK))
		return fail ("reopens_as_other_format", format_str (ri.format)) ;
	r.classes.push_back ("cycle:write4x4+reopen") ;
	return r ;
}

// ---- the enumeration commands
static Result run_lists (const Case &c)
{	Result r ; r.nontrivial = true ; r.dhash = fnv_str ("lists") ; r.classes = { "lists" } ;
	auto fail = [&] (const char *kind, const std::string &d) { Result x = r ; x.ok = false ; x.kind = kind ; x.detail = d ; return x ; } ;
	struct L { int count_cmd, item_cmd ; const char *name ; } lists [] = {
		{ SFC_GET_SIMPLE_FORMAT_COUNT, SFC_GET_SIMPLE_FORMAT, "simple" }, { SFC_GET_FORMAT_MAJOR_COUNT, SFC_GET_FORMAT_MAJOR, "major" }, { SFC_GET_FORMAT_SUBTYPE_COUNT, SFC_GET_FORMAT_SUBTYPE, "subtype" } } ;
	for (auto &l : lists)
	{	int n = -1 ; if (sf_command (nullptr, l.count_cmd, &n, sizeof (n)) != 0 || n < 1) return fail ("list_count", l.name) ;
		std::set<int> formats ; std::set<std::string> names ;
		for (int k = -2 ; k <= n + 2 ; k++)
		{	SF_FORMAT_INFO fi ; memset (&fi, 0x5a, sizeof (fi)) ; fi.format = k ;
			int rc = sf_command (nullptr, l.item_cmd, &fi, sizeof (fi)) ;
			if (k < 0 || k >= n) { if (rc == 0) return fail ("list_out_of_range_index_accepted", std::string (l.name) + " index " + std::to_string (k)) ; continue ; }
			if (rc != 0) return fail ("list_item_fails", std::string (l.name) + " index " + std::to_string (k)) ;
			if (!fi.name || !*fi.name) return fail ("list_name_empty", std::string (l.name) + " index " + std::to_string (k)) ;
			if (!formats.insert (fi.format).second) return fail ("list_duplicate_format", std::string (l.name) + " " + fi.name) ;
			if (!names.insert (fi.name).second) return fail ("list_duplicate_name", std::string (l.name) + " " + fi.name) ;
			// SFC_GET_FORMAT_INFO on the returned word names the same entry
			SF_FORMAT_INFO q ; memset (&q, 0, sizeof (q)) ; q.format = fi.format ;
			if (sf_command (nullptr, SFC_GET_FORMAT_INFO, &q, sizeof (q)) != 0 || !q.name || !*q.name) return fail ("format_info_fails", fi.name) ;
			if (l.item_cmd == SFC_GET_SIMPLE_FORMAT)
			{	bool any = false ; for (int ch : { 1, 2 }) if (fmt_check (fi.format, ch)) any = true ;
				if (!any) return fail ("simple_format_fails_check", fi.name) ;
			}
			if (l.item_cmd == SFC_GET_FORMAT_MAJOR)
			{	bool any = false ;
				for (int sub : enumerate_subtypes ()) for (int ch : { 1, 2 }) if (fmt_check (fi.format | sub, ch)) any = true ;
				if (!any) return fail ("major_without_usable_subtype", fi.name) ;
			}
			ctx.ev.extra ["list_entries_checked"] ++ ;
		}
	}
	(void) c ;
	return r ;
}

static Result run_case (const Case &c) { return c.gets ("kind") == "lists" ? run_lists (c) : run_point (c) ; }

int main (int argc, char **argv)
{	init_io () ;
	ctx.property = "C10" ;
	ctx.parse (argc, argv) ;
	scratch_dir () ;
	if (!ctx.replay.empty ()) { int rc = replay_main (ctx, run_case) ; rm_scratch () ; return rc ; }
	long long worker = ctx.opti ("worker", 0), workers = ctx.opti ("workers", 1) ;
	static const int ends [] = { SF_ENDIAN_FILE, SF_ENDIAN_LITTLE, SF_ENDIAN_BIG, SF_ENDIAN_CPU } ;
	static const int chans [] = { 0, 1, 2, 3, 8, 9, 256, 257, 1024, 1025 } ;
	static const int rates [] = { -1, 0, 1, 8000, 44100, 2147483647 } ;
	auto majors = enumerate_majors () ; auto subs = enumerate_subtypes () ;
	long long idx = 0 ; bool failed = false ;
	auto visit = [&] (int format, int ch, int rate)
	{	if (idx ++ % workers != worker) return ;
		Case c ; c.set ("kind", "point") ; c.set ("fmt", format_str (format)) ; c.seti ("format", format) ; c.seti ("ch", ch) ; c.seti ("rate", rate) ;
		if (execute (ctx, c, run_case, sig_of)) failed = true ;
	} ;
	if (worker == 0) { Case c ; c.set ("kind", "lists") ; if (execute (ctx, c, run_case, nullptr)) failed = true ; }
	for (int maj : majors) for (int sub : subs) for (int e : ends) for (int ch : chans) for (int rate : rates)
	{	if (failed) break ;
		visit (maj | sub | e, ch, rate) ;
	}
	if (ctx.thorough && !failed)
		for (int maj : majors) for (int sub : subs) for (int ch = 1 ; ch <= 1025 && !failed ; ch++) visit (maj | sub, ch, 44100) ;
	ctx.ev.extra ["majors_enumerated"] = worker == 0 ? (long long) majors.size () : 0 ;
	ctx.ev.extra ["subtypes_enumerated"] = worker == 0 ? (long long) subs.size () : 0 ;
	ctx.flush (true) ;
	rm_scratch () ;
	if (failed) { fprintf (outf (), "FAIL %s kind=%s detail=%s\n", ctx.path ("failing.case").c_str (), ctx.failing_res.kind.c_str (), ctx.failing_res.detail.c_str ()) ; return 1 ; }
	fprintf (outf (), "OK evaluations=%lld\n", ctx.ev.evaluations) ;
	return 0 ;
}
