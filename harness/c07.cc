// C07 - output bytes are independent of how writes are split and of when they run.
// case: catalogue entry x channels x sample buffer x two partitions P, Q (Q with SFC_UPDATE_HEADER_NOW and item/frame
// mixes) x two clock values.  oracle: file(P,t1) == file(Q,t1) byte for byte; file(P,t1) vs file(P,t2) differ at
// most in the PEAK timestamp field.
#include "vf_writehist.hpp"
using namespace vf ;

static Ctx ctx ;

static Case gen_case ()
{	const FmtEntry *e = pickEntry (all_vio_entries ()) ;
	Case c ;
	c.set ("fmt", format_str (e->format)) ;
	c.seti ("format", e->format) ;
	int ch = pickChannels (e, 12) ;
	c.seti ("ch", ch) ;
	int rate = *rc::gen::element (8000, 11025, 22050, 44100, 48000) ;
	c.seti ("rate", rate) ;
	long long maxN = (ctx.thorough ? 65536 : 12288) / ch ; if (maxN < 8) maxN = 8 ;
	c.seti ("n", *lengthGen (nominal_block (e->format, ch, rate), maxN)) ;
	c.set ("t", stype_name [*rangeOf<int> (0, 3)]) ;
	c.set ("style", style_name [*rangeOf<int> (0, ST_COUNT - 1)]) ;
	c.seti ("seed", (long long) *seedGen ()) ;
	c.seti ("pseed", (long long) *seedGen ()) ;
	c.seti ("qseed", (long long) *seedGen ()) ;
	c.seti ("upd", *rc::gen::element (0, 2, 4)) ;	// Q: an update after roughly every k-th call (0 = none)
	c.seti ("t1", 1700000000) ;
	c.seti ("t2", 1700000000 + *rangeOf<int> (1, 100000000)) ;
	return c ;
}

static Case sig_of (const Case &c)
{	int format = (int) c.geti ("format") ;
	Case s ;
	s.set ("container", major_name (format)) ;
	const Codec *cd = codec_of (format) ; s.set ("codec", cd ? cd->name : "?") ;
	s.set ("endian", endian_name (format)) ;
	return s ;
}

static size_t first_diff (const std::vector<uint8_t> &a, const std::vector<uint8_t> &b)
{	size_t n = a.size () < b.size () ? a.size () : b.size () ;
	for (size_t i = 0 ; i < n ; i++) if (a [i] != b [i]) return i ;
	return n ;
}

static Result run_case (const Case &c)
{	Result r ;
	OpenSpec s ; s.format = (int) c.geti ("format") ; s.ch = (int) c.geti ("ch") ; s.rate = (int) c.geti ("rate") ;
	long long N = c.geti ("n") ; int t = stype_from (c.gets ("t")) ; int ts = stype_size (t) ;
	const Codec *cd = codec_of (s.format) ;
	bool vox = cd->subtype == SF_FORMAT_VOX_ADPCM && !c.geti ("vox_allow_odd", 0) ;
	if (vox && ((N * s.ch) & 1)) N ++ ;
	r.sig = sig_of (c) ;
	int B = nominal_block (s.format, s.ch, s.rate) ;
	Block src ((size_t) N * s.ch * ts) ; fill_any (src.p, t, (size_t) N * s.ch, style_from (c.gets ("style")), (uint64_t) c.geti ("seed")) ;
	Rng pr ((uint64_t) c.geti ("pseed")), qr ((uint64_t) c.geti ("qseed")) ;
	std::vector<long long> P = make_partition_updates (pr, N, B, s.ch, ts, 0, vox) ;
	std::vector<long long> Q = make_partition_updates (qr, N, B, s.ch, ts, (int) c.geti ("upd"), vox) ;
	bool unaligned = false ; for (long long k : Q) if (k != 0 && (k < 0 ? -k : k) % B) unaligned = true ;
	r.nontrivial = N >= 1 && P != Q && (unaligned || B == 1) ;
	r.dhash = fnv_str (c.gets ("fmt") + "|" + c.gets ("ch") + "|" + std::to_string (N) + "|" + c.gets ("t") + "|" + join_ints (P) + "|" + join_ints (Q)) ;
	int nupd = 0 ; for (long long k : Q) if (k == 0) nupd ++ ;
	r.classes = { std::string ("container:") + major_name (s.format), std::string ("codec:") + cd->name, std::string ("updates:") + (nupd ? "yes" : "no"),
		std::string ("t:") + c.gets ("t"), std::string ("calls_q:") + (Q.size () <= 1 ? "1" : Q.size () < 8 ? "2-7" : ">=8") } ;
	if (vox) r.classes.push_back ("excluded_known:vox_odd_forced_even") ;
	auto fail = [&] (const char *kind, const std::string &d) { Result x = r ; x.ok = false ; x.kind = kind ; x.detail = d ; return x ; } ;

	MemFile a, b, a2 ; std::string e ;
	pinned_time () = (long) c.geti ("t1") ;
	// "repeating the run later or in another process": the same call sequence once more on a heap with another history (blocks of
	// many sizes filled with a different byte and freed). Under ASan's defaults fresh blocks are pattern-filled and freed ones quarantined,
	// so this only bites in the second stage, which runs with an allocator that hands freed blocks straight back, unfilled.
	auto dirty_heap = [] (uint8_t pat) { std::vector<void *> v ; for (size_t sz = 16 ; sz <= 65536 ; sz = sz < 512 ? sz + 16 : sz + sz / 16)	/* every allocator size class up to 64 KiB */ { void *p = malloc (sz) ; if (p) { memset (p, pat, sz) ; v.push_back (p) ; } } for (void *p : v) free (p) ; } ;
	MemFile a3 ;
	static const bool reuse_allocator = getenv ("ASAN_OPTIONS") && strstr (getenv ("ASAN_OPTIONS"), "max_malloc_fill_size=0") ;
	if (reuse_allocator) dirty_heap (0x11) ;
	e = write_partitioned (a, s, t, src.p, N, P, false, nullptr) ; if (!e.empty ()) return fail ("write_failed", "P: " + e) ;
	if (reuse_allocator) { dirty_heap (0xEE) ; e = write_partitioned (a3, s, t, src.p, N, P, false, nullptr) ; if (!e.empty ()) return fail ("write_failed", "P again: " + e) ; r.classes.push_back ("heap_history:varied") ; }
	if (reuse_allocator && a.data != a3.data) return fail ("bytes_depend_on_heap_history", "the same calls, the same clock, another heap history: first difference at byte " + std::to_string (first_diff (a.data, a3.data)) + " of " + std::to_string (a.data.size ())) ;
	e = write_partitioned (b, s, t, src.p, N, Q, false, nullptr) ; if (!e.empty ()) return fail ("write_failed", "Q: " + e) ;
	pinned_time () = (long) c.geti ("t2") ;
	e = write_partitioned (a2, s, t, src.p, N, P, false, nullptr) ; if (!e.empty ()) return fail ("write_failed", "P@t2: " + e) ;
	pinned_time () = 1700000000 ;
	if (a.data != b.data)
	{	size_t i = first_diff (a.data, b.data) ;
		return fail ("bytes_depend_on_partition", "sizes " + std::to_string (a.data.size ()) + "/" + std::to_string (b.data.size ()) + " first difference at byte " + std::to_string (i) +
			" P=[" + join_ints (P).substr (0, 80) + "] Q=[" + join_ints (Q).substr (0, 80) + "]") ;
	}
	if (a.data != a2.data)
	{	std::vector<uint8_t> x = a.data, y = a2.data ;
		mask_peak_timestamp (x) ; mask_peak_timestamp (y) ;
		// MAT5: the 116-byte descriptive text of the header ends in "Created on: <date>" (a date string the caller
		// did not set, explicitly permitted by the statement)
		if ((s.format & SF_FORMAT_TYPEMASK) == SF_FORMAT_MAT5 && x.size () >= 116 && y.size () >= 116) { memset (x.data (), 0, 116) ; memset (y.data (), 0, 116) ; r.classes.push_back ("mat5_date_masked") ; }
		if (x != y) return fail ("bytes_depend_on_clock", "first difference at byte " + std::to_string (first_diff (x, y)) + " after masking the PEAK timestamp") ;
		r.classes.push_back ("peak_timestamp_masked") ;
	}
	return r ;
}

int main (int argc, char **argv)
{	init_io () ;
	ctx.property = "C07" ;
	ctx.parse (argc, argv) ;
	scratch_dir () ;
	int rc = rc_main (ctx, gen_case, run_case, sig_of) ;
	rm_scratch () ;
	return rc ;
}
