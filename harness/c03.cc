// C03 stage 0 - systematic mutation sweep over the seed corpus, sharing the target function with the libFuzzer stage.
// group = one seed file (catalogue entry x {1,2} channels x {plain, every metadata chunk}); cell = (mutation, position, argument)
// with a derived 6-op script and route.  Each group runs in a forked child that announces every cell, so that a sanitizer abort,
// an I/O work-budget overrun (exit 97) or a CPU-bound hang (SIGALRM) is attributed to the cell in flight and the sweep continues
// behind it.  A case file is either (seed name, mutation, position, argument, script seed) or "input=<hex>" (a fuzzer artifact).
#include "vf_c03.hpp"
#include <sys/wait.h>
using namespace vf ;

static Ctx ctx ;

enum Mut { M_NONE = 0, M_TRUNC, M_TRUNC_FLIP, M_ZERO4, M_FF4, M_FLIP, M_SET4, M_SWAP, M_GROW, M_SET8, M_COUNT } ;
static const char *mut_name [] = { "none", "truncate", "truncate_flip", "zero4", "ff4", "flip", "set4", "swap_chunks", "inflate_chunk", "set8" } ;
struct Cell { int mut ; long pos ; long arg ; } ;

static std::vector<uint8_t> mutate (const std::vector<uint8_t> &seed, const Cell &c)
{	std::vector<uint8_t> d = seed ; size_t n = d.size () ; size_t p = (size_t) c.pos ; Rng r ((uint64_t) c.arg * 7919 + (uint64_t) c.pos) ;
	static const uint32_t consts [] = { 1, 2, 0x7fffffff, 0x80000000u, 0xfffffffe, 0x10000, 0xffff, 0x7fff, 0x100, 0xff000000u, 3, 0x01000000 } ;
	switch (c.mut)
	{	case M_TRUNC : if (p < n) d.resize (p) ; break ;
		case M_TRUNC_FLIP : if (p < n) d.resize (p) ; if (!d.empty ()) d [r.below (std::min<size_t> (d.size (), 96))] ^= (uint8_t) (1 + r.below (255)) ; break ;
		case M_ZERO4 : for (size_t i = p ; i < p + 4 && i < n ; i++) d [i] = 0 ; break ;
		case M_FF4 : for (size_t i = p ; i < p + 4 && i < n ; i++) d [i] = 0xff ; break ;
		case M_FLIP : if (p < n) d [p] ^= (uint8_t) (c.arg ? c.arg : 1) ; break ;
		case M_SET4 : { uint32_t v = consts [(size_t) c.arg % 12] ; bool be = ((size_t) c.arg / 12) & 1 ; for (size_t i = 0 ; i < 4 && p + i < n ; i++) d [p + i] = (uint8_t) (be ? v >> (24 - 8 * i) : v >> (8 * i)) ; } break ;
		case M_SET8 :	// 64-bit size / frame-count fields (W64, CAF, RF64 ds64): values whose product with a channel count or block width overflows
		{	static const uint64_t c8 [] = { 0x4000000000000000ull, 0x7fffffffffffffffull, 0x2000000000000001ull, 0x0000000100000000ull, 0xffffffffffffff00ull, 0x1000000000000000ull } ;
			uint64_t v = c8 [(size_t) c.arg % 6] ; bool be = ((size_t) c.arg / 6) & 1 ; for (size_t i = 0 ; i < 8 && p + i < n ; i++) d [p + i] = (uint8_t) (be ? v >> (56 - 8 * i) : v >> (8 * i)) ;
		} break ;
		case M_SWAP :
		{	auto cks = walk_iff (seed) ; if (cks.size () < 3) break ; size_t i = (size_t) c.pos % (cks.size () - 1), j = i + 1 ;
			auto span = [&] (const ChunkPos &k) { size_t e = k.data + (size_t) k.size + ((size_t) k.size & 1) ; return std::make_pair (k.hdr, e > n ? n : e) ; } ;
			auto a = span (cks [i]), b = span (cks [j]) ; if (a.second != b.first || b.second > n) break ;
			std::vector<uint8_t> out (seed.begin (), seed.begin () + (long) a.first) ; out.insert (out.end (), seed.begin () + (long) b.first, seed.begin () + (long) b.second) ; out.insert (out.end (), seed.begin () + (long) a.first, seed.begin () + (long) a.second) ; out.insert (out.end (), seed.begin () + (long) b.second, seed.end ()) ; d = out ;
		} break ;
		case M_GROW :
		{	// inflate the size field of chunk #pos by arg and cut the file inside that chunk
			auto cks = walk_iff (seed) ; if (cks.empty ()) break ; const ChunkPos &k = cks [(size_t) c.pos % cks.size ()] ; if (k.hdr + 8 > n) break ;
			bool be = n >= 4 && (memcmp (seed.data (), "FORM", 4) == 0 || memcmp (seed.data (), "RIFX", 4) == 0) ; uint32_t v = (uint32_t) k.size + (uint32_t) c.arg ;
			for (size_t i = 0 ; i < 4 ; i++) d [k.hdr + 4 + i] = (uint8_t) (be ? v >> (24 - 8 * i) : v >> (8 * i)) ;
			size_t cut = k.data + (size_t) k.size ; if ((c.arg & 1) && cut < n) d.resize (cut) ;
		} break ;
		default : break ;
	}
	return d ;
}

static std::vector<uint8_t> script_for (uint64_t sseed, int &ctl)
{	Rng r (sseed) ; std::vector<uint8_t> ops ; int nops = 4 + (int) r.below (5) ;
	for (int i = 0 ; i < nops ; i++) { ops.push_back ((uint8_t) r.below (15)) ; ops.push_back ((uint8_t) r.next ()) ; ops.push_back ((uint8_t) r.next ()) ; }
	int route = (int) r.below (10) ; ctl = route < 7 ? 0 : route < 8 ? 1 : 2 ;
	return ops ;
}

static std::vector<Cell> cells_for (const SeedFile &s, bool thorough)
{	std::vector<Cell> v ; long n = (long) s.bytes.size () ; std::set<long> cuts ;
	long dense = s.rich ? std::min<long> (n, 2600) : std::min<long> (n, 96) ;
	for (long p = 0 ; p < dense ; p += (thorough || !s.rich ? 1 : 2)) cuts.insert (p) ;
	auto cks = walk_iff (s.bytes) ;
	for (auto &k : cks) for (long d = -1 ; d <= 1 ; d++) { cuts.insert ((long) k.hdr + d) ; cuts.insert ((long) k.hdr + 4 + d) ; cuts.insert ((long) k.data + d) ; cuts.insert ((long) (k.data + k.size) + d) ; }
	for (int i = 1 ; i < 20 ; i++) cuts.insert (n * i / 20) ;
	for (long p = std::max<long> (0, n - (thorough ? 200 : 40)) ; p < n ; p++) cuts.insert (p) ;
	for (int k = 0 ; k < 3 ; k++) v.push_back ({ M_NONE, 0, k }) ;
	for (long p : cuts) if (p >= 0 && p < n) { v.push_back ({ M_TRUNC, p, 0 }) ; if (thorough || p % 3 == 0) v.push_back ({ M_TRUNC_FLIP, p, 1 }) ; }
	long fields = s.rich ? std::min<long> (n, 2600) : std::min<long> (n, 128) ;
	for (long p = 0 ; p < fields ; p++)
	{	bool fieldish = p % 2 == 0 ; if (!thorough && !fieldish) continue ;
		v.push_back ({ M_ZERO4, p, 0 }) ; v.push_back ({ M_FF4, p, 0 }) ;
		v.push_back ({ M_FLIP, p, 1 + (p * 37) % 255 }) ;
		for (int a = 0 ; a < (thorough ? 24 : 6) ; a++) v.push_back ({ M_SET4, p, thorough ? a : (a * 5 + p) % 24 }) ;
	}
	{	int mj = s.format & SF_FORMAT_TYPEMASK ;
		if (mj == SF_FORMAT_W64 || mj == SF_FORMAT_CAF || mj == SF_FORMAT_RF64)
			for (long p = 0 ; p + 8 <= std::min<long> (n, s.rich ? 1024 : 256) ; p += 4) for (int a = 0 ; a < 36 ; a ++) v.push_back ({ M_SET8, p, a }) ;
	}
	for (auto &k : cks) { v.push_back ({ M_ZERO4, (long) k.hdr + 4, 0 }) ; v.push_back ({ M_FF4, (long) k.hdr + 4, 0 }) ; for (int a = 0 ; a < 24 ; a += thorough ? 1 : 4) v.push_back ({ M_SET4, (long) k.hdr + 4, a }) ; }
	for (size_t i = 0 ; i + 1 < cks.size () ; i++) v.push_back ({ M_SWAP, (long) i, 0 }) ;
	for (size_t i = 0 ; i < cks.size () ; i++) for (long a : { 1l, 2l, 8l, 23l, 24l, 25l, 48l, 281l, 1000l, 70000l }) v.push_back ({ M_GROW, (long) i, a }) ;
	return v ;
}

static Case cell_case (const SeedFile &s, const Cell &c)
{	Case k ; k.set ("seed_name", s.name) ; k.set ("container", major_name (s.format)) ; k.set ("codec", codec_of (s.format)->name) ; k.seti ("rich", s.rich) ;
	k.set ("mut", mut_name [c.mut]) ; k.seti ("mut_id", c.mut) ; k.seti ("pos", c.pos) ; k.seti ("arg", c.arg) ;
	return k ;
}

static std::vector<uint8_t> input_for (const SeedFile &s, const Cell &c)
{	int ctl = 0 ; std::vector<uint8_t> ops = script_for (fnv_str (s.name) ^ ((uint64_t) c.mut << 48) ^ ((uint64_t) c.pos << 16) ^ (uint64_t) c.arg, ctl) ;
	if (c.mut == M_SET8) ctl = (int) ((c.arg / 12) % 3) ;	// each 64-bit constant through every route: the pipe route has no file length to clamp a size field with
	return join_input (mutate (s.bytes, c), ops, ctl) ;
}

static std::string describe (const C03Out &o)
{	if (o.ok) return "" ; return o.kind + "|" + o.detail + " (route " + std::to_string (o.route) + ", opened " + std::to_string (o.opened) + ", format " + std::to_string (o.format) + ")" ; }

// child: cells [from, ..); protocol "S i" / "R i opened route result" / "L leak"
static long run_group_child (const SeedFile &s, const std::vector<Cell> &cells, long from, bool leak_each, std::vector<std::pair<long, std::string>> &fails, long &done, long &opened_n, bool &group_leak, int &exit_code, long &last_finished)
{	int pfd [2] ; if (pipe (pfd) != 0) return -2 ;
	fflush (nullptr) ; pid_t pid = fork () ;
	if (pid == 0)
	{	close (pfd [0]) ; char line [900] ;
		for (long i = from ; i < (long) cells.size () ; i++)
		{	int len = snprintf (line, sizeof (line), "S %ld\n", i) ; if (write (pfd [1], line, len) < 0) _exit (3) ;
			alarm (10) ; std::vector<uint8_t> in = input_for (s, cells [i]) ; C03Out o = c03_run (in.data (), in.size (), false) ; alarm (0) ;
			std::string r = describe (o) ; if (r.empty () && leak_each && __lsan_do_recoverable_leak_check ()) r = "memory_leak|" ;
			len = snprintf (line, sizeof (line), "R %ld %d %s\n", i, o.opened ? 1 : 0, r.substr (0, 700).c_str ()) ; if (write (pfd [1], line, len) < 0) _exit (3) ;
			if (leak_each && r.compare (0, 11, "memory_leak") == 0) _exit (96) ;
		}
		int leak = leak_each ? 0 : __lsan_do_recoverable_leak_check () ;
		int len = snprintf (line, sizeof (line), "L %d\n", leak ? 1 : 0) ; if (write (pfd [1], line, len) < 0) _exit (3) ;
		_exit (0) ;
	}
	close (pfd [1]) ; FILE *in = fdopen (pfd [0], "r") ; char line [1000] ; long started = -1, finished = -1 ;
	while (fgets (line, sizeof (line), in))
	{	if (line [0] == 'S') started = atol (line + 2) ;
		else if (line [0] == 'R') { long idx ; int op ; int pos = 0 ; sscanf (line + 2, "%ld %d %n", &idx, &op, &pos) ; finished = idx ; done ++ ; opened_n += op ;
			std::string rest = line + 2 + pos ; while (!rest.empty () && rest.back () == '\n') rest.pop_back () ; if (!rest.empty ()) fails.push_back ({ idx, rest }) ; }
		else if (line [0] == 'L') group_leak = line [2] == '1' ;
	}
	fclose (in) ; int st = 0 ; waitpid (pid, &st, 0) ;
	exit_code = WIFEXITED (st) ? WEXITSTATUS (st) : 128 + WTERMSIG (st) ; last_finished = finished ;
	if (exit_code == 0 || exit_code == 96) return -1 ;
	return started ;
}

static const SeedFile *find_seed (const std::vector<SeedFile> &seeds, const std::string &name) { for (auto &s : seeds) if (s.name == name) return &s ; return nullptr ; }

static Result replay_case (const Case &c)
{	std::vector<uint8_t> in ; Result res ;
	if (c.has ("input")) in = unhex (c.gets ("input")) ;
	else
	{	std::vector<SeedFile> seeds = c03_seeds () ; const SeedFile *s = find_seed (seeds, c.gets ("seed_name")) ;
		if (!s) { res.ok = true ; res.detail = "seed no longer exists" ; return res ; }
		in = input_for (*s, { (int) c.geti ("mut_id"), (long) c.geti ("pos"), (long) c.geti ("arg") }) ;
	}
	alarm (45) ; C03Out o = c03_run (in.data (), in.size (), false) ; alarm (0) ;
	res.nontrivial = o.opened ; res.sig.seti ("route", o.route) ; res.sig.seti ("opened", o.opened) ;
	if (!o.ok) { res.ok = false ; res.kind = o.kind ; res.detail = o.detail ; }
	else if (__lsan_do_recoverable_leak_check ()) { res.ok = false ; res.kind = "memory_leak" ; }
	return res ;
}

int main (int argc, char **argv)
{	init_io () ;
	ctx.property = "C03" ;
	ctx.parse (argc, argv) ;
	scratch_dir () ;
	signal (SIGPIPE, SIG_IGN) ;
	if (ctx.opt.count ("emit-corpus"))
	{	// seed corpus for the fuzzer: each seed with a default script trailer
		std::string dir = ctx.opt ["emit-corpus"] ; mkdir (dir.c_str (), 0777) ; int n = 0 ;
		for (auto &s : c03_seeds ())
		{	int ctl ; std::vector<uint8_t> ops = script_for (fnv_str (s.name), ctl) ; std::string nm = s.name ; for (auto &ch : nm) if (ch == '/') ch = '_' ;
			write_file (dir + "/" + nm + "_" + std::to_string (n ++), join_input (s.bytes, ops, 0)) ;
		}
		rm_scratch () ; return 0 ;
	}
	if (ctx.opt.count ("stats"))
	{	// run every file of a fuzzer corpus through the target (ASan build) and count what it reaches; a failing unit is a failure
		std::string dir = ctx.opt ["stats"] ; bool failed = false ;
		for (auto &n : list_dir (dir))
		{	std::vector<uint8_t> in ; if (!read_file (dir + "/" + n, in)) continue ;
			Case c ; c.set ("input", hex (in.data (), in.size ())) ;
			RunFn run = [&] (const Case &) { alarm (45) ; C03Out o = c03_run (in.data (), in.size (), false) ; alarm (0) ; Result r ; r.nontrivial = o.opened ; r.dhash = fnv1a (in.data (), in.size ()) ;
				r.classes = { std::string ("corpus_opened:") + (o.opened ? major_name (o.format) : "no"), "corpus_route:" + std::to_string (o.route) } ; if (o.negative_returns) r.classes.push_back ("negative_read_return") ;
				if (!o.ok) { r.ok = false ; r.kind = o.kind ; r.detail = o.detail ; } return r ; } ;
			if (execute (ctx, c, run, nullptr)) { failed = true ; break ; }
		}
		ctx.flush (true) ; rm_scratch () ;
		if (failed) { fprintf (outf (), "FAIL %s kind=%s detail=%s\n", ctx.path ("failing.case").c_str (), ctx.failing_res.kind.c_str (), ctx.failing_res.detail.c_str ()) ; return 1 ; }
		fprintf (outf (), "OK evaluations=%lld\n", ctx.ev.evaluations) ; return 0 ;
	}
	if (!ctx.replay.empty ()) { int rc = replay_main (ctx, replay_case) ; rm_scratch () ; return rc ; }
	long long worker = ctx.opti ("worker", 0), workers = ctx.opti ("workers", 1) ;
	std::vector<SeedFile> seeds = c03_seeds () ;
	bool failed = false ; long gi = 0 ;
	for (auto &s : seeds)
	{	if (gi ++ % workers != worker) continue ;
		if (ctx.over_budget ()) { ctx.ev.skipped_budget ++ ; continue ; }
		std::vector<Cell> cells = cells_for (s, ctx.thorough) ;
		long from = 0 ; bool leak_each = false ;
		while (from < (long) cells.size () && !failed)
		{	std::vector<std::pair<long, std::string>> fails ; long done = 0, opened = 0 ; bool gleak = false ; int ec = 0 ; long lastfin = -1 ;
			long crashed = run_group_child (s, cells, from, leak_each, fails, done, opened, gleak, ec, lastfin) ;
			ctx.ev.evaluations += done ; ctx.ev.extra ["distinct_counted"] += leak_each ? 0 : done ; ctx.ev.extra ["opened"] += opened ;
			ctx.ev.classes [std::string ("container:") + major_name (s.format)] += done ; ctx.ev.classes [std::string ("opened_in:") + major_name (s.format)] += opened ;
			for (auto &fl : fails)
			{	Case c = cell_case (s, cells [fl.first]) ; auto p = fl.second.find ('|') ; Result r ; r.ok = false ; r.kind = fl.second.substr (0, p) ; r.detail = p == std::string::npos ? "" : fl.second.substr (p + 1) ;
				RunFn give = [&] (const Case &) { return r ; } ; if (execute (ctx, c, give, nullptr, false)) failed = true ;
			}
			if (crashed >= 0)
			{	Case c = cell_case (s, cells [crashed]) ; Result r ; r.ok = false ; r.kind = ec == 97 ? "unbounded_work" : ec == 128 + SIGALRM ? "hang" : "crash" ;
				r.detail = ec == 97 ? "a library call did not return within its I/O callback budget (2000000 + 100 per input byte)" : ec == 128 + SIGALRM ? "no return within 10 s (confirmed by three replays with a 45 s limit before it is reported)" : "child died (exit " + std::to_string (ec) + "): sanitizer report or signal, see stderr" ;
				RunFn give = [&] (const Case &) { return r ; } ; ctx.ev.evaluations ++ ; if (execute (ctx, c, give, nullptr, false)) failed = true ;
				from = crashed + 1 ;
			}
			else if (ec == 96) from = lastfin + 1 ;
			else if (gleak && !leak_each) { leak_each = true ; from = 0 ; ctx.ev.extra ["groups_rerun_for_leak_attribution"] ++ ; }
			else break ;
		}
		for (auto &c : cells) ctx.ev.classes [std::string ("mut:") + mut_name [c.mut]] ++ ;
		if (ctx.ev.samples.size () < 8 && !cells.empty ()) ctx.ev.samples.push_back (cell_case (s, cells [cells.size () / 2]).str (' ')) ;
		ctx.flush () ;
		if (failed) break ;
	}
	ctx.flush (true) ; rm_scratch () ;
	if (failed) { fprintf (outf (), "FAIL %s kind=%s detail=%s\n", ctx.path ("failing.case").c_str (), ctx.failing_res.kind.c_str (), ctx.failing_res.detail.c_str ()) ; return 1 ; }
	fprintf (outf (), "OK evaluations=%lld\n", ctx.ev.evaluations) ;
	return 0 ;
}
