// C12 - metadata set before the audio survives close and re-open unchanged.
// case: container {WAV, WAVEX, RF64, AIFF, CAF} x subset of {strings, bext, cart, cues, instrument, channel map} allowed by the
//       static support table x order of the set calls x generated values (boundary lengths, CR/LF mixes, 0..100 cues, 0..16 loops)
//       x >= 1000 frames of audio x "late" variant (set after audio written through a typed call or sf_write_raw).
// oracle: after re-open every get returns the model value (identity up to the documented normalisations and the fields the
//         container's chunk layout can hold); audio and every other item equal a twin file written without the item.
#include "vf_file.hpp"
using namespace vf ;

static Ctx ctx ;
enum { I_STR = 1, I_BEXT = 2, I_CART = 4, I_CUE = 8, I_INST = 16, I_MAP = 32 } ;
static const int containers [] = { SF_FORMAT_WAV, SF_FORMAT_WAVEX, SF_FORMAT_RF64, SF_FORMAT_AIFF, SF_FORMAT_CAF } ;

// static support table (transcribed from the chunk definitions and the pinned writers; deliberately not learned at run time)
static int supported_items (int maj)
{	switch (maj)
	{	case SF_FORMAT_WAV : return I_STR | I_BEXT | I_CART | I_CUE | I_INST ;
		case SF_FORMAT_WAVEX : return I_STR | I_BEXT | I_MAP ;
		case SF_FORMAT_RF64 : return I_STR | I_BEXT | I_CART | I_MAP ;
		case SF_FORMAT_AIFF : return I_STR | I_CUE | I_INST | I_MAP ;
		default : return I_STR | I_MAP ;	// CAF
	}
}
static std::vector<int> string_types (int maj)
{	switch (maj)
	{	case SF_FORMAT_AIFF : return { SF_STR_TITLE, SF_STR_COPYRIGHT, SF_STR_SOFTWARE, SF_STR_ARTIST, SF_STR_COMMENT } ;
		case SF_FORMAT_CAF : return { SF_STR_TITLE, SF_STR_COPYRIGHT, SF_STR_SOFTWARE, SF_STR_ARTIST, SF_STR_COMMENT, SF_STR_DATE, SF_STR_ALBUM, SF_STR_LICENSE, SF_STR_TRACKNUMBER, SF_STR_GENRE } ;
		default : return { SF_STR_TITLE, SF_STR_COPYRIGHT, SF_STR_SOFTWARE, SF_STR_ARTIST, SF_STR_COMMENT, SF_STR_DATE, SF_STR_ALBUM, SF_STR_TRACKNUMBER, SF_STR_GENRE } ;
	}
}

static Case gen_case ()
{	Case c ;
	int maj = *rc::gen::elementOf (std::vector<int> (containers, containers + 5)) ;
	int sub = *rc::gen::element (SF_FORMAT_PCM_16, SF_FORMAT_PCM_24, SF_FORMAT_FLOAT) ;
	int ch = *rc::gen::element (1, 2, 2, 3, 4, 6) ;
	// byte order: the container's own in half of the cases, otherwise an explicit one where sf_format_check accepts it (RIFX, AIFF-C 'sowt', little-endian CAF)
	int en = *rc::gen::element (0, 0, (int) SF_ENDIAN_LITTLE, (int) SF_ENDIAN_BIG) ;
	if (en) { SF_INFO ci ; memset (&ci, 0, sizeof (ci)) ; ci.format = maj | sub | en ; ci.channels = ch ; ci.samplerate = 44100 ; if (!sf_format_check (&ci)) en = 0 ; }
	c.set ("fmt", format_str (maj | sub | en)) ; c.seti ("format", maj | sub | en) ;
	c.seti ("ch", ch) ;
	int sup = supported_items (maj) ; int items = 0 ;
	for (int bit = 1 ; bit <= 32 ; bit <<= 1) if ((sup & bit) && *rangeOf<int> (0, 1)) items |= bit ;
	if (!items) items = sup & -sup ;
	c.seti ("items", items) ;
	c.seti ("unsupported", *rangeOf<int> (0, 7) == 0 ? (~sup & 63) : 0) ;	// also try items the container cannot store
	c.seti ("seed", (long long) *seedGen ()) ;
	c.seti ("order", (long long) *seedGen ()) ;
	c.seti ("strlen", *rangeOf<int> (0, 5)) ;	// string length class
	c.seti ("hist", *rangeOf<int> (0, 4)) ;		// coding history / tag text class
	c.seti ("ncue", *rc::gen::weightedOneOf<int> ({ { 3, rangeOf<int> (0, 5) }, { 2, rangeOf<int> (6, 100) }, { 1, rc::gen::element (99, 100) } })) ;
	c.seti ("nloop", *rc::gen::element (0, 1, 2, 3, 16)) ;
	c.seti ("frames", *rc::gen::element (1000, 1001, 1500)) ;
	c.seti ("strmode", *rangeOf<int> (0, 4) == 0) ;
	c.seti ("exact", *rangeOf<int> (0, 2) == 0) ;	// bext / cart passed in a heap block that ends with the text (datasize = offset of the text + its length, no terminator)
	c.seti ("preset", *rangeOf<int> (0, 3) == 0) ;	// every item set once before with other values
	c.seti ("late", *rc::gen::element (0, 0, 0, 1, 2)) ;	// 0: all before audio; 1: one more set of every item after typed audio; 2: after sf_write_raw audio
	return c ;
}

static Case sig_of (const Case &c)
{	int format = (int) c.geti ("format") ; Case s ;
	s.set ("container", major_name (format)) ; const Codec *cd = codec_of (format) ; s.set ("codec", cd ? cd->name : "?") ;
	return s ;
}

// ---- value generators (deterministic from the seed)
static std::string gen_text (Rng &r, size_t len, bool utf8)
{	std::string s ;
	while (s.size () < len)
	{	if (utf8 && r.below (12) == 0 && s.size () + 2 <= len) { s += (char) (0xC3) ; s += (char) (0xA0 + r.below (30)) ; }
		else s += (char) (0x21 + r.below (0x5e)) ;
	}
	return s ;
}
static size_t len_class (Rng &r, int cls)
{	switch (cls) { case 0 : return 1 + r.below (4) ; case 1 : return 2 * r.below (20) + 1 ; case 2 : { static const size_t L [] = { 127, 128, 255, 256, 63, 64 } ; return L [r.below (6)] ; } case 3 : return 1 + r.below (60) ; case 4 : return 200 + r.below (1800) ; default : return 2 + 2 * r.below (30) ; } }
static void fill_field (char *dst, size_t width, Rng &r, bool full)
{	size_t n = full ? width : r.below (width + 1) ; for (size_t i = 0 ; i < width ; i++) dst [i] = i < n ? (char) (0x21 + r.below (0x5e)) : 0 ; }
static std::string gen_history (Rng &r, int cls, size_t maxlen)
{	if (cls == 0) return "" ;
	std::string s ; size_t target = cls == 1 ? 10 : cls == 2 ? 100 + r.below (100) : cls == 3 ? 250 : 1 + r.below (maxlen) ; if (target > maxlen) target = maxlen ;
	while (s.size () + 12 < target)
	{	s += "A=PCM,F=" + std::to_string (8000 + r.below (40000)) ;
		switch (r.below (4)) { case 0 : s += "\r\n" ; break ; case 1 : s += "\n" ; break ; case 2 : s += "\r" ; break ; default : s += ",T=x\r\n" ; break ; }
	}
	if (s.size () > maxlen) s.resize (maxlen) ;
	return s ;
}
// normalise line ends the way the documentation says the library does (CR, LF, LFCR -> CRLF)
static std::string crlf (const std::string &s)
{	std::string o ;
	for (size_t i = 0 ; i < s.size () ; i++)
	{	if ((s [i] == '\r' && i + 1 < s.size () && s [i + 1] == '\n') || (s [i] == '\n' && i + 1 < s.size () && s [i + 1] == '\r')) { o += "\r\n" ; i ++ ; }
		else if (s [i] == '\r' || s [i] == '\n') o += "\r\n" ;
		else o += s [i] ;
	}
	return o ;
}

struct Meta
{	std::vector<std::pair<int, std::string>> strings ;
	bool exact = false ; std::pair<int, std::string> odd_string { 0, "" } ;	// a string type this container has no field for (set, not expected back; the file must stay intact)
	SF_BROADCAST_INFO bext ; std::string history ;
	SF_CART_INFO cart ; std::string tag ;
	SF_CUES cues ; SF_INSTRUMENT inst ; std::vector<int> map ;
} ;

static void gen_meta (Meta &m, const Case &c, int maj, int ch)
{	Rng r ((uint64_t) c.geti ("seed")) ;
	m.exact = c.geti ("exact", 0) != 0 ;
	int sl = (int) c.geti ("strlen") ;
	// strmode 1: exactly one string type is set (a container may then write a string chunk with nothing in it)
	int only = c.geti ("strmode", 0) ? (int) (1 + r.below (SF_STR_LAST)) : 0 ;
	{	std::vector<int> sup = string_types (maj) ; if (only && std::find (sup.begin (), sup.end (), only) == sup.end ()) m.odd_string = { only, gen_text (r, 1 + r.below (20), false) } ; }
	for (int t : string_types (maj))
	{	if (only ? t != only : r.below (3) == 0) continue ;
		size_t len = len_class (r, sl) ; if (t == SF_STR_SOFTWARE && len > 64) len = 64 ;	// the library appends its own suffix in a 128-byte staging buffer: longer software strings are a separate class (not generated)
		m.strings.push_back ({ t, gen_text (r, len, true) }) ;
	}
	memset (&m.bext, 0, sizeof (m.bext)) ; bool full = r.below (2) ;
	fill_field (m.bext.description, sizeof (m.bext.description), r, full) ; fill_field (m.bext.originator, sizeof (m.bext.originator), r, full) ; fill_field (m.bext.originator_reference, sizeof (m.bext.originator_reference), r, full) ;
	fill_field (m.bext.origination_date, sizeof (m.bext.origination_date), r, true) ; fill_field (m.bext.origination_time, sizeof (m.bext.origination_time), r, true) ;
	m.bext.time_reference_low = (uint32_t) r.next () ; m.bext.time_reference_high = (uint32_t) r.next () ; m.bext.version = 2 ;
	for (auto &b : m.bext.umid) b = (char) r.next () ;
	m.bext.loudness_value = (int16_t) r.next () ; m.bext.loudness_range = (int16_t) r.next () ; m.bext.max_true_peak_level = (int16_t) r.next () ; m.bext.max_momentary_loudness = (int16_t) r.next () ; m.bext.max_shortterm_loudness = (int16_t) r.next () ;
	m.history = gen_history (r, (int) c.geti ("hist"), sizeof (m.bext.coding_history) - 1) ;
	memcpy (m.bext.coding_history, m.history.data (), m.history.size ()) ; m.bext.coding_history_size = (uint32_t) m.history.size () ;
	memset (&m.cart, 0, sizeof (m.cart)) ; full = r.below (2) ;
	memcpy (m.cart.version, "0101", 4) ;
	fill_field (m.cart.title, 64, r, full) ; fill_field (m.cart.artist, 64, r, full) ; fill_field (m.cart.cut_id, 64, r, full) ; fill_field (m.cart.client_id, 64, r, full) ; fill_field (m.cart.category, 64, r, full) ;
	fill_field (m.cart.classification, 64, r, full) ; fill_field (m.cart.out_cue, 64, r, full) ; fill_field (m.cart.start_date, 10, r, true) ; fill_field (m.cart.start_time, 8, r, true) ; fill_field (m.cart.end_date, 10, r, true) ; fill_field (m.cart.end_time, 8, r, true) ;
	fill_field (m.cart.producer_app_id, 64, r, full) ; fill_field (m.cart.producer_app_version, 64, r, full) ; fill_field (m.cart.user_def, 64, r, full) ; m.cart.level_reference = (int32_t) r.next () ;
	for (auto &t : m.cart.post_timers) { fill_field (t.usage, 4, r, true) ; t.value = (int32_t) r.next () ; }
	fill_field (m.cart.url, 1024, r, r.below (4) == 0) ;
	m.tag = gen_history (r, (int) c.geti ("hist"), sizeof (m.cart.tag_text) - 1) ; memcpy (m.cart.tag_text, m.tag.data (), m.tag.size ()) ; m.cart.tag_text_size = (uint32_t) m.tag.size () ;
	memset (&m.cues, 0, sizeof (m.cues)) ; m.cues.cue_count = (uint32_t) c.geti ("ncue") ; uint32_t frames = (uint32_t) c.geti ("frames") ;
	for (uint32_t i = 0 ; i < m.cues.cue_count ; i++)
	{	auto &p = m.cues.cue_points [i] ; p.indx = (int32_t) (i + 1) ; p.position = (uint32_t) r.below (frames) ; p.fcc_chunk = 0x61746164 ; p.chunk_start = 0 ; p.block_start = 0 ; p.sample_offset = (uint32_t) r.below (frames) ;
		static const size_t longs [] = { 127, 128, 129, 200, 250, 255 } ;
		std::string nm = gen_text (r, r.below (3) == 0 ? 0 : r.below (6) == 0 ? longs [r.below (6)] : 1 + r.below (30), false) ; memcpy (p.name, nm.data (), std::min<size_t> (nm.size (), sizeof (p.name) - 1)) ;
	}
	memset (&m.inst, 0, sizeof (m.inst)) ; m.inst.gain = (int) r.range (-30, 30) ; m.inst.basenote = (char) r.below (128) ; m.inst.detune = (char) r.range (-50, 50) ;
	m.inst.velocity_lo = (char) r.below (64) ; m.inst.velocity_hi = (char) (64 + r.below (64)) ; m.inst.key_lo = (char) r.below (64) ; m.inst.key_hi = (char) (64 + r.below (64)) ;
	m.inst.loop_count = (int) c.geti ("nloop") ;
	for (int i = 0 ; i < m.inst.loop_count ; i++) { static const int modes [] = { SF_LOOP_NONE, SF_LOOP_FORWARD, SF_LOOP_BACKWARD, SF_LOOP_ALTERNATING } ; m.inst.loops [i].mode = modes [r.below (4)] ; m.inst.loops [i].start = (uint32_t) r.below (frames / 2) ; m.inst.loops [i].end = m.inst.loops [i].start + 1 + (uint32_t) r.below (frames / 2) ; m.inst.loops [i].count = (uint32_t) r.below (100) ; }
	// channel map: a layout every container can express (ascending WAVEX mask order)
	static const int order [] = { SF_CHANNEL_MAP_LEFT, SF_CHANNEL_MAP_RIGHT, SF_CHANNEL_MAP_CENTER, SF_CHANNEL_MAP_LFE, SF_CHANNEL_MAP_REAR_LEFT, SF_CHANNEL_MAP_REAR_RIGHT, SF_CHANNEL_MAP_FRONT_LEFT_OF_CENTER, SF_CHANNEL_MAP_FRONT_RIGHT_OF_CENTER, SF_CHANNEL_MAP_REAR_CENTER, SF_CHANNEL_MAP_SIDE_LEFT, SF_CHANNEL_MAP_SIDE_RIGHT } ;
	static const int apple [6] [6] = { { SF_CHANNEL_MAP_MONO }, { SF_CHANNEL_MAP_LEFT, SF_CHANNEL_MAP_RIGHT }, { SF_CHANNEL_MAP_LEFT, SF_CHANNEL_MAP_RIGHT, SF_CHANNEL_MAP_REAR_CENTER },
		{ SF_CHANNEL_MAP_LEFT, SF_CHANNEL_MAP_RIGHT, SF_CHANNEL_MAP_CENTER, SF_CHANNEL_MAP_LFE }, {}, { SF_CHANNEL_MAP_LEFT, SF_CHANNEL_MAP_RIGHT, SF_CHANNEL_MAP_CENTER, SF_CHANNEL_MAP_LFE, SF_CHANNEL_MAP_REAR_LEFT, SF_CHANNEL_MAP_REAR_RIGHT } } ;
	m.map.clear () ;
	if (maj == SF_FORMAT_WAVEX || maj == SF_FORMAT_RF64)
	{	std::vector<int> pick ; for (int i = 0 ; i < 11 ; i++) pick.push_back (i) ;
		while ((int) pick.size () > ch) { if (pick.size () > 2) pick.erase (pick.begin () + (long) (2 + r.below (pick.size () - 2))) ; else pick.pop_back () ; }
		for (int i : pick) m.map.push_back (order [i]) ;
	}
	else if (ch <= 6 && ch != 5) { for (int i = 0 ; i < ch ; i++) m.map.push_back (apple [ch - 1] [i]) ; if (ch == 3 && r.below (2)) m.map [2] = SF_CHANNEL_MAP_CENTER ; if (ch == 4 && r.below (2)) m.map [3] = SF_CHANNEL_MAP_REAR_CENTER ; }
}

// apply one item; returns true when the library reported success
static bool set_item (SNDFILE *f, int item, Meta &m)
{	switch (item)
	{	case I_STR : { bool ok = true ; for (auto &s : m.strings) if (sf_set_string (f, s.first, s.second.c_str ()) != 0) ok = false ; return ok ; }
		case I_BEXT :
			if (m.exact && m.bext.coding_history_size > 0)
			{	size_t n = offsetof (SF_BROADCAST_INFO, coding_history) + m.bext.coding_history_size ; Block b (n) ; memcpy (b.p, &m.bext, n) ; return sf_command (f, SFC_SET_BROADCAST_INFO, b.p, (int) n) == SF_TRUE ; }
			return sf_command (f, SFC_SET_BROADCAST_INFO, &m.bext, sizeof (m.bext)) == SF_TRUE ;
		case I_CART :
			if (m.exact && m.cart.tag_text_size > 0)
			{	size_t n = offsetof (SF_CART_INFO, tag_text) + m.cart.tag_text_size ; Block b (n) ; memcpy (b.p, &m.cart, n) ; return sf_command (f, SFC_SET_CART_INFO, b.p, (int) n) == SF_TRUE ; }
			return sf_command (f, SFC_SET_CART_INFO, &m.cart, sizeof (m.cart)) == SF_TRUE ;
		case I_CUE : return sf_command (f, SFC_SET_CUE, &m.cues, sizeof (m.cues)) == SF_TRUE ;
		case I_INST : return sf_command (f, SFC_SET_INSTRUMENT, &m.inst, sizeof (m.inst)) == SF_TRUE ;
		default : return m.map.empty () ? false : sf_command (f, SFC_SET_CHANNEL_MAP_INFO, m.map.data (), (int) (m.map.size () * sizeof (int))) == SF_TRUE ;
	}
}

struct Written { MemFile file ; int accepted = 0 ; int late_str_type = 0 ; std::string late_str ; } ;

static std::string write_file (Written &w, const OpenSpec &s, int items, Meta &m, uint64_t order, const std::vector<short> &audio, long long frames, int late, int late_items, bool preset = false)
{	SNDFILE *f = open_write_mem (w.file, s) ; if (!f) return std::string ("open_write_failed: ") + sf_strerror (nullptr) ;
	std::vector<int> seq ; for (int bit = 1 ; bit <= 32 ; bit <<= 1) if (items & bit) seq.push_back (bit) ;
	Rng r (order) ; for (size_t i = seq.size () ; i > 1 ; i--) std::swap (seq [i - 1], seq [r.below (i)]) ;
	if (preset)
	{	// every item is first set to other values (longer history / tag text, more cues and loops): the later set must replace them completely
		Meta first ; Case c1 ; c1.seti ("seed", 777777) ; c1.seti ("strlen", 2) ; c1.seti ("hist", 3) ; c1.seti ("ncue", 7) ; c1.seti ("nloop", 2) ; c1.seti ("frames", frames) ;
		gen_meta (first, c1, s.format & SF_FORMAT_TYPEMASK, s.ch) ;
		for (int it : seq) if (it != I_STR) set_item (f, it, first) ;
	}
	for (int it : seq) if (set_item (f, it, m)) w.accepted |= it ;
	if (items && m.odd_string.first) sf_set_string (f, m.odd_string.first, m.odd_string.second.c_str ()) ;
	if (late == 2)
	{	// audio through sf_write_raw only (PCM_16 little endian containers get the same bytes as sf_write_short would give; others: whatever, twin does the same)
		sf_count_t bytes = (sf_count_t) audio.size () * 2 ; sf_count_t bw = (sf_count_t) codec_of (s.format)->bytes * s.ch ; bytes -= bytes % bw ;
		if (sf_write_raw (f, audio.data (), bytes) != bytes) { sf_close (f) ; return "short_write_raw" ; }
	}
	else if (sf_writef_short (f, audio.data (), frames) != frames) { sf_close (f) ; return "short_write" ; }
	if (late)
	{	Meta other ; Case c2 ; c2.seti ("seed", 424242) ; c2.seti ("strlen", 3) ; c2.seti ("hist", 2) ; c2.seti ("ncue", 3) ; c2.seti ("nloop", 1) ; c2.seti ("frames", frames) ;
		gen_meta (other, c2, s.format & SF_FORMAT_TYPEMASK, s.ch) ;
		for (int bit = 2 ; bit <= 32 ; bit <<= 1) if (late_items & bit) set_item (f, bit, other) ;	// must be refused or ignored (strings may legally be appended at the end: not part of the late set)
		// a string after the audio: sf_set_string either refuses it (container without end-of-file strings) or returns 0, and what it
		// accepted must be there after re-open (the library's own contract: SF_STR_ALLOW_END / SFE_STR_NO_ADD_END)
		if (late_items)
			for (int t : string_types (s.format & SF_FORMAT_TYPEMASK))
			{	bool used = t == SF_STR_SOFTWARE || t == m.odd_string.first ; for (auto &st : m.strings) if (st.first == t) used = true ;
				if (used) continue ;
				std::string txt = "late " + std::to_string (t) + " " + gen_text (r, 1 + r.below (40), false) ;
				if (sf_set_string (f, t, txt.c_str ()) == 0) { w.late_str_type = t ; w.late_str = txt ; }
				break ;
			}
	}
	if (sf_close (f) != 0) return "close_failed" ;
	return "" ;
}

static std::string cmp_fixed (const char *name, const void *a, const void *b, size_t n) { return memcmp (a, b, n) == 0 ? "" : std::string (name) ; }

static Result run_case (const Case &c)
{	Result r ; r.sig = sig_of (c) ;
	OpenSpec s ; s.format = (int) c.geti ("format") ; s.ch = (int) c.geti ("ch") ; s.rate = 44100 ; int maj = s.format & SF_FORMAT_TYPEMASK ; int ch = s.ch ;
	int items = (int) c.geti ("items"), unsup = (int) c.geti ("unsupported") ; long long frames = c.geti ("frames") ; int late = (int) c.geti ("late") ;
	auto fail = [&] (const char *kind, const std::string &d) { Result x = r ; x.ok = false ; x.kind = kind ; x.detail = d ; return x ; } ;
	Meta m ; gen_meta (m, c, maj, ch) ;
	if ((items & I_MAP) && m.map.empty ()) items &= ~I_MAP ;
	std::vector<short> audio ((size_t) frames * ch) ; { Rng ar ((uint64_t) c.geti ("seed") ^ 0x77) ; for (auto &x : audio) x = (short) ar.next () ; }
	int nitems = __builtin_popcount (items) ;
	r.dhash = fnv_str (c.str ()) ; r.nontrivial = nitems >= 2 || c.geti ("strlen") == 2 ;
	r.classes = { std::string ("container:") + major_name (s.format), "late:" + std::to_string (late), std::string ("unsupported:") + (unsup ? "1" : "0") } ;
	for (int bit = 1 ; bit <= 32 ; bit <<= 1) if (items & bit) r.classes.push_back (std::string ("item:") + (bit == 1 ? "strings" : bit == 2 ? "bext" : bit == 4 ? "cart" : bit == 8 ? "cues" : bit == 16 ? "instrument" : "chanmap")) ;
	r.sig.seti ("late", late) ; r.sig.seti ("with_instrument", ((items | unsup) & I_INST) ? 1 : 0) ;
	Written real, twin ; std::string e ;
	int late_item = 0 ; if (late) { static const int li [] = { I_BEXT, I_CART, I_CUE, I_INST, I_MAP } ; late_item = li [(uint64_t) c.geti ("order") % 5] ; r.sig.seti ("late_item", late_item) ; r.classes.push_back ("late_item:" + std::to_string (late_item)) ; }
	bool preset = c.geti ("preset", 0) != 0 ; r.classes.push_back (std::string ("preset:") + (preset ? "1" : "0")) ; r.sig.seti ("preset", preset) ;
	e = write_file (real, s, items | unsup, m, (uint64_t) c.geti ("order"), audio, frames, late, late_item, preset) ; if (!e.empty ()) return fail ("write_failed", e) ;
	e = write_file (twin, s, 0, m, 1, audio, frames, late == 2 ? 2 : 0, 0) ; if (!e.empty ()) return fail ("twin_failed", e) ;
	// supported items set before the audio must have been accepted
	for (int bit = 1 ; bit <= 32 ; bit <<= 1) if ((items & bit) && !(real.accepted & bit)) { r.sig.seti ("item", bit) ; return fail ("supported_item_refused", "item bit " + std::to_string (bit)) ; }
	MemFile a ; a.data = real.file.data ; SF_INFO ri ; SNDFILE *g = open_read_mem (a, s, &ri) ; if (!g) { static char lg [16384] ; lg [0] = 0 ; sf_command (nullptr, SFC_GET_LOG_INFO, lg, sizeof (lg)) ; size_t n = strlen (lg) ; std::string tail = n > 300 ? lg + n - 300 : lg ; for (auto &ch : tail) if (ch == '\n') ch = '|' ; return fail ("reopen_failed", std::string (sf_strerror (nullptr)) + " log tail: " + tail) ; }
	MemFile b ; b.data = twin.file.data ; SF_INFO ti ; SNDFILE *t = open_read_mem (b, s, &ti) ; if (!t) { sf_close (g) ; return fail ("twin_reopen_failed", sf_strerror (nullptr)) ; }
	Result res = r ; auto flag = [&] (const char *kind, int item, const std::string &d) { if (res.ok) { res.ok = false ; res.kind = kind ; res.detail = d ; res.sig.seti ("item", item) ; } } ;
	// audio
	if (ri.frames != ti.frames || ri.channels != ti.channels) flag ("audio_info_changed", 0, "frames " + std::to_string ((long long) ri.frames) + " twin " + std::to_string ((long long) ti.frames)) ;
	else
	{	std::vector<short> x ((size_t) ri.frames * ch + 1), y ((size_t) ri.frames * ch + 1) ; sf_readf_short (g, x.data (), ri.frames) ; sf_readf_short (t, y.data (), ti.frames) ;
		if (x != y) flag ("audio_changed", 0, "samples differ from the twin written without metadata") ;
	}
	// strings
	for (auto &st : m.strings)
	{	const char *got = sf_get_string (g, st.first) ; bool want = (items & I_STR) != 0 ;
		if (!want) { const char *tw = sf_get_string (t, st.first) ; if ((got == nullptr) != (tw == nullptr) || (got && strcmp (got, tw))) flag ("string_appeared", I_STR, "type " + std::to_string (st.first)) ; continue ; }
		if (!got) { flag ("string_lost", I_STR, "type " + std::to_string (st.first) + " length " + std::to_string (st.second.size ())) ; continue ; }
		if (st.first == SF_STR_SOFTWARE) { if (strncmp (got, st.second.c_str (), st.second.size ()) != 0 || strstr (got, "libsndfile") == nullptr) { bool na = false ; for (unsigned char ch2 : st.second) if (ch2 >= 0x80) na = true ; res.sig.seti ("nonascii", na) ; res.sig.seti ("strtype", st.first) ; flag ("string_changed", I_STR, "software string set '" + st.second.substr (0, 70) + "' got '" + std::string (got).substr (0, 110) + "'") ; } }
		else if (st.second != got) { bool na = false ; for (unsigned char ch2 : st.second) if (ch2 >= 0x80) na = true ; res.sig.seti ("strtype", st.first) ; res.sig.seti ("nonascii", na) ; size_t i = 0 ; while (i < st.second.size () && st.second [i] == got [i]) i ++ ; flag ("string_changed", I_STR, "type " + std::to_string (st.first) + " length " + std::to_string (st.second.size ()) + " came back with length " + std::to_string (strlen (got)) + ", first difference at " + std::to_string (i) + ": set " + hex (st.second.data () + i, std::min<size_t> (4, st.second.size () - i)) + " got " + hex (got + i, std::min<size_t> (4, strlen (got + i)))) ; }
	}
	if (real.late_str_type)
	{	const char *got = sf_get_string (g, real.late_str_type) ; r.classes.push_back ("late_string:accepted") ;
		if (!got || real.late_str != got) flag ("late_string_accepted_but_lost", I_STR, "type " + std::to_string (real.late_str_type) + " set after the audio, sf_set_string returned 0, re-open gives " + (got ? std::string ("'") + got + "'" : std::string ("nothing"))) ;
	}
	// bext
	{	SF_BROADCAST_INFO gb ; memset (&gb, 0, sizeof (gb)) ; int rc = sf_command (g, SFC_GET_BROADCAST_INFO, &gb, sizeof (gb)) ;
		if (items & I_BEXT)
		{	if (rc != SF_TRUE) flag ("bext_lost", I_BEXT, "") ;
			else
			{	std::string f1 = cmp_fixed ("description", gb.description, m.bext.description, 256) + cmp_fixed (" originator", gb.originator, m.bext.originator, 32) + cmp_fixed (" originator_reference", gb.originator_reference, m.bext.originator_reference, 32) +
					cmp_fixed (" origination_date", gb.origination_date, m.bext.origination_date, 10) + cmp_fixed (" origination_time", gb.origination_time, m.bext.origination_time, 8) + cmp_fixed (" umid", gb.umid, m.bext.umid, 64) ;
				if (gb.time_reference_low != m.bext.time_reference_low || gb.time_reference_high != m.bext.time_reference_high) f1 += " time_reference" ;
				if (gb.loudness_value != m.bext.loudness_value || gb.loudness_range != m.bext.loudness_range || gb.max_true_peak_level != m.bext.max_true_peak_level || gb.max_momentary_loudness != m.bext.max_momentary_loudness || gb.max_shortterm_loudness != m.bext.max_shortterm_loudness) f1 += " loudness" ;
				if (!f1.empty ()) flag ("bext_field_changed", I_BEXT, f1) ;
				std::string hist (gb.coding_history, strnlen (gb.coding_history, std::min<size_t> (gb.coding_history_size, sizeof (gb.coding_history)))) ;
				std::string norm = crlf (m.history) ; if (!norm.empty () && (norm.size () < 2 || norm.substr (norm.size () - 2) != "\r\n")) norm += "\r\n" ;
				// documented normalisation: CRLF line ends, then the library's own "A=..." line; the 256-byte public struct may cut the tail
				std::string exp = norm.substr (0, std::min (norm.size (), hist.size ())) ;
				if (hist.compare (0, exp.size (), exp) != 0 || (norm.size () <= 200 && hist.size () < norm.size ())) flag ("bext_history_changed", I_BEXT, "set " + std::to_string (m.history.size ()) + " bytes, normalised " + std::to_string (norm.size ()) + ", got " + std::to_string (hist.size ())) ;
				else if (norm.size () + 40 < sizeof (gb.coding_history) && hist.find ("A=", norm.size ()) != norm.size ()) flag ("bext_history_library_line_missing", I_BEXT, hist.substr (0, 60)) ;
				else if (norm.size () + 80 < sizeof (gb.coding_history))
				{	// what follows the caller's text is exactly one line, the library's own (".. T=libsndfile-x.y.z"): anything else was never set by this caller
					std::string tail = hist.substr (norm.size ()) ; size_t eol = tail.find ("\r\n") ;
					if (eol == std::string::npos || tail.substr (0, eol).find ("T=libsndfile") == std::string::npos || tail.size () != eol + 2) flag ("bext_history_extra_lines", I_BEXT, "after the " + std::to_string (norm.size ()) + " bytes that were set: [" + tail.substr (0, 120) + "]") ;
				}
			}
		}
		else if (!(unsup & I_BEXT)) { SF_BROADCAST_INFO tb ; memset (&tb, 0, sizeof (tb)) ; int r2 = sf_command (t, SFC_GET_BROADCAST_INFO, &tb, sizeof (tb)) ; if (rc != r2) flag ("bext_appeared", I_BEXT, "") ; }
	}
	// cart
	{	SF_CART_INFO gc ; memset (&gc, 0, sizeof (gc)) ; int rc = sf_command (g, SFC_GET_CART_INFO, &gc, sizeof (gc)) ;
		if (items & I_CART)
		{	if (rc != SF_TRUE) flag ("cart_lost", I_CART, "") ;
			else
			{	size_t fixed = offsetof (SF_CART_INFO, tag_text_size) ;
				if (memcmp (&gc, &m.cart, fixed) != 0) { size_t i = 0 ; while (((char *) &gc) [i] == ((char *) &m.cart) [i]) i ++ ; flag ("cart_field_changed", I_CART, "first difference at struct offset " + std::to_string (i)) ; }
				std::string tag (gc.tag_text, strnlen (gc.tag_text, std::min<size_t> (gc.tag_text_size, sizeof (gc.tag_text)))) ; std::string norm = crlf (m.tag) ; if (!norm.empty () && (norm.size () < 2 || norm.substr (norm.size () - 2) != "\r\n")) norm += "\r\n" ;
				std::string exp = norm.substr (0, std::min (norm.size (), tag.size ())) ;
				if (tag.compare (0, exp.size (), exp) != 0 || (norm.size () <= 200 && tag.size () < norm.size ())) flag ("cart_tag_changed", I_CART, "set " + std::to_string (m.tag.size ()) + " got " + std::to_string (tag.size ())) ;
			}
		}
		else if (!(unsup & I_CART)) { SF_CART_INFO tc ; memset (&tc, 0, sizeof (tc)) ; int r2 = sf_command (t, SFC_GET_CART_INFO, &tc, sizeof (tc)) ; if (rc != r2) flag ("cart_appeared", I_CART, "") ; }
	}
	// cues
	{	uint32_t cnt = 0 ; sf_command (g, SFC_GET_CUE_COUNT, &cnt, sizeof (cnt)) ; static SF_CUES gq ; memset (&gq, 0, sizeof (gq)) ; int rc = sf_command (g, SFC_GET_CUE, &gq, sizeof (gq)) ;
		if ((items & I_CUE) && m.cues.cue_count > 0)
		{	if (rc != SF_TRUE || gq.cue_count != m.cues.cue_count) flag ("cues_count", I_CUE, "set " + std::to_string (m.cues.cue_count) + " got " + std::to_string (rc == SF_TRUE ? gq.cue_count : 0) + " (count command " + std::to_string (cnt) + ")") ;
			else for (uint32_t i = 0 ; i < gq.cue_count && res.ok ; i++)
			{	auto &x = gq.cue_points [i] ; auto &y = m.cues.cue_points [i] ; std::string d ;
				if (maj == SF_FORMAT_AIFF)
				{	// MARK holds: id (16 bit), position, Pascal-string name
					if ((x.indx & 0xffff) != (y.indx & 0xffff)) d += " indx" ; if (x.sample_offset != y.sample_offset) d += " sample_offset" ; if (strncmp (x.name, y.name, 255) != 0) d += " name" ;
				}
				else
				{	if (x.indx != y.indx) d += " indx" ; if (x.position != y.position) d += " position" ; if (x.fcc_chunk != y.fcc_chunk) d += " fcc_chunk" ; if (x.chunk_start != y.chunk_start) d += " chunk_start" ; if (x.block_start != y.block_start) d += " block_start" ; if (x.sample_offset != y.sample_offset) d += " sample_offset" ;
				}
				if (!d.empty ()) flag ("cue_field_changed", I_CUE, "cue " + std::to_string (i) + ":" + d) ;
			}
		}
		else if (!((items | unsup) & I_CUE)) { static SF_CUES tq ; memset (&tq, 0, sizeof (tq)) ; int r2 = sf_command (t, SFC_GET_CUE, &tq, sizeof (tq)) ; if (rc != r2 || (rc == SF_TRUE && gq.cue_count != tq.cue_count)) flag ("cues_appeared", I_CUE, "") ; }
	}
	// instrument
	{	SF_INSTRUMENT gi ; memset (&gi, 0, sizeof (gi)) ; int rc = sf_command (g, SFC_GET_INSTRUMENT, &gi, sizeof (gi)) ;
		if (items & I_INST)
		{	if (rc != SF_TRUE) flag ("instrument_lost", I_INST, "") ;
			else
			{	std::string d ; if (gi.basenote != m.inst.basenote) d += " basenote" ; if (!(maj != SF_FORMAT_AIFF && m.inst.detune < 0) && gi.detune != m.inst.detune) d += " detune(set " + std::to_string ((int) m.inst.detune) + " got " + std::to_string ((int) gi.detune) + ")" ; if (gi.loop_count != m.inst.loop_count) d += " loop_count" ;
				if (maj == SF_FORMAT_AIFF) { if (gi.gain != m.inst.gain) d += " gain" ; if (gi.velocity_lo != m.inst.velocity_lo || gi.velocity_hi != m.inst.velocity_hi) d += " velocity" ; if (gi.key_lo != m.inst.key_lo || gi.key_hi != m.inst.key_hi) d += " key" ; }
				for (int i = 0 ; i < std::min (gi.loop_count, m.inst.loop_count) ; i++) { if (gi.loops [i].mode != m.inst.loops [i].mode) d += " loop" + std::to_string (i) + ".mode" ; if (gi.loops [i].start != m.inst.loops [i].start) d += " loop" + std::to_string (i) + ".start" ; if (gi.loops [i].end != m.inst.loops [i].end) d += " loop" + std::to_string (i) + ".end" ; if (gi.loops [i].count != m.inst.loops [i].count) d += " loop" + std::to_string (i) + ".count" ; }
				if (!d.empty ()) flag ("instrument_field_changed", I_INST, d) ;
			}
		}
		else if (!(unsup & I_INST)) { SF_INSTRUMENT tq ; memset (&tq, 0, sizeof (tq)) ; int r2 = sf_command (t, SFC_GET_INSTRUMENT, &tq, sizeof (tq)) ; if (rc != r2) flag ("instrument_appeared", I_INST, "") ; }
	}
	// channel map
	{	std::vector<int> gm ((size_t) ch, -1) ; int rc = sf_command (g, SFC_GET_CHANNEL_MAP_INFO, gm.data (), (int) (ch * sizeof (int))) ;
		if (items & I_MAP)
		{	if (rc != SF_TRUE) flag ("channel_map_lost", I_MAP, "") ;
			else if (gm != m.map) { std::string d = "wrote" ; for (int v : m.map) d += " " + std::to_string (v) ; d += " read" ; for (int v : gm) d += " " + std::to_string (v) ; flag ("channel_map_changed", I_MAP, d) ; }
		}
		else if (!(unsup & I_MAP)) { std::vector<int> tm ((size_t) ch, -1) ; int r2 = sf_command (t, SFC_GET_CHANNEL_MAP_INFO, tm.data (), (int) (ch * sizeof (int))) ; if (rc != r2 || (rc == SF_TRUE && gm != tm)) flag ("channel_map_appeared", I_MAP, "") ; }
	}
	sf_close (g) ; sf_close (t) ;
	return res ;
}

int main (int argc, char **argv)
{	init_io () ;
	ctx.property = "C12" ;
	ctx.parse (argc, argv) ;
	scratch_dir () ;
	int rc = rc_main (ctx, gen_case, run_case, sig_of) ;
	rm_scratch () ;
	return rc ;
}
