// C19 - handles are isolated from each other and from earlier library use.
// case: 2..8 scripts (each: catalogue entry, channels, mode {read, write, failing open}, op seed, op count) and a merge of their
// steps {random, round robin, one after the other, bursts}; for two short scripts every merge is enumerated.
// oracle: each script's transcript (return value, returned-data digest, sf_error(handle) after every call, sf_error(NULL) right
// after its own open) and the final bytes of its backing store are the same in the interleaved run as when the script runs alone
// in a fresh process.  Every run (fixtures, solo, interleaved) happens in its own forked child; the parent never opens a file.
#include "vf_file.hpp"
#include <sys/wait.h>
#include <signal.h>
using namespace vf ;

static Ctx ctx ;

struct ScriptSpec { int format = 0, ch = 1, mode = 0, nops = 0 ; uint64_t seed = 0 ; int path = 0 ; } ;	// path: 1 = a real file (sf_open by path) instead of virtual I/O	// mode 0 read, 1 write, 2 failing open

static std::vector<ScriptSpec> specs_of (const Case &c)
{	std::vector<ScriptSpec> v ; int ns = (int) c.geti ("ns") ;
	for (int i = 0 ; i < ns ; i++)
	{	ScriptSpec s ; std::string k = std::to_string (i) ;
		s.format = (int) c.geti ("f" + k) ; s.ch = (int) c.geti ("c" + k) ; s.mode = (int) c.geti ("m" + k) ; s.nops = (int) c.geti ("k" + k) ; s.seed = (uint64_t) c.geti ("s" + k) ; s.path = (int) c.geti ("p" + k, 0) ;
		v.push_back (s) ;
	}
	return v ;
}

static Case gen_case ()
{	Case c ;
	int ns = *rc::gen::element (2, 2, 2, 3, 3, 4, 5, 8) ;
	int merge = *rc::gen::element (0, 0, 1, 2, 3, 4) ;	// 0 random, 1 round robin, 2 sequential, 3 bursts, 4 all merges (two short scripts)
	if (merge == 4) ns = 2 ;
	c.seti ("ns", ns) ; c.seti ("merge", merge) ; c.seti ("mseed", (long long) *seedGen ()) ;
	int samek = *rangeOf<int> (0, 5) ; bool same = samek <= 1 ;	// every script on the same codec: shared per-codec state would show here
	bool family = samek == 2 ;	// ... or on the variants of one codec family in one container (NMS 16/24/32, G.721/G.723, ALAC, DWVW, float/double ...): state shared between variants
	// the shared codec is drawn from the encodings that keep per-stream state in a private block (that is where state shared between
	// handles, or left uninitialised, would live), each equally likely
	static std::vector<const FmtEntry *> stateful ;
	if (stateful.empty ()) for (auto *e : all_vio_entries ()) { const Codec *cd = codec_of (e->format) ; int maj = e->format & SF_FORMAT_TYPEMASK ; if (!is_granular (e->format) || cd->is_float || maj == SF_FORMAT_XI) stateful.push_back (e) ; }
	const FmtEntry *shared = pickEntry (stateful.empty () ? all_vio_entries () : stateful) ;
	for (int i = 0 ; i < ns ; i++)
	{	// one script in three works on a real file (descriptors of its own, SD2 included), the others on virtual I/O
		int path = *rangeOf<int> (0, 2) == 0 ; const FmtEntry *e = same ? shared : pickEntry (path ? all_entries () : all_vio_entries ()) ; std::string k = std::to_string (i) ;
		if (family)
		{	auto fam = [] (const FmtEntry *x) { std::string n = codec_of (x->format)->name ; std::string o ; for (char ch : n) if (ch < '0' || ch > '9') o += ch ; return o + "@" + std::to_string (x->format & SF_FORMAT_TYPEMASK) ; } ;
			std::vector<const FmtEntry *> grp ; for (auto *x : stateful) if (fam (x) == fam (shared)) grp.push_back (x) ;
			e = *rc::gen::elementOf (grp) ;
		}
		if ((e->format & SF_FORMAT_TYPEMASK) == SF_FORMAT_SD2) path = 1 ;
		c.seti ("p" + k, path) ;
		c.seti ("f" + k, e->format) ; c.seti ("c" + k, pickChannels (e, 30)) ;
		c.seti ("m" + k, *rc::gen::element (0, 0, 0, 1, 1, 1, 2)) ;
		c.seti ("k" + k, merge == 4 ? *rangeOf<int> (1, 2) : *rangeOf<int> (1, 10)) ;
		c.seti ("s" + k, (long long) *seedGen ()) ;
	}
	c.seti ("same", same ? 1 : family ? 2 : 0) ;
	return c ;
}

static Case sig_of (const Case &c)
{	Case s ; s.seti ("ns", c.geti ("ns")) ; s.seti ("merge", c.geti ("merge")) ;
	std::set<std::string> codecs ; for (auto &sp : specs_of (c)) { const Codec *cd = codec_of (sp.format) ; codecs.insert (cd ? cd->name : "?") ; }
	std::string j ; for (auto &x : codecs) j += (j.empty () ? "" : "+") + x ; s.set ("codecs", j) ;
	return s ;
}

// ---------------------------------------------------------------- a script as a step machine
struct Script
{	ScriptSpec sp ; std::vector<uint8_t> fixture ;
	MemFile mem ; SNDFILE *h = nullptr ; SF_INFO info ; Rng rng { 0 } ; int pc = 0 ; bool done = false ; bool wrote = false ;
	std::vector<std::string> lines ; int data_ops = 0 ;
	bool vox = false ; const Codec *cd = nullptr ;

	std::string path, rpath ; int index = 0 ;
	// fixture layout for the path route: 4-byte length of the data file, data file, then (SD2) the "._name" resource fork
	void init ()
	{	rng = Rng (sp.seed ^ 0x5bd1e995u) ; cd = codec_of (sp.format) ; vox = cd && cd->subtype == SF_FORMAT_VOX_ADPCM ;
		if (!sp.path) { if (sp.mode != 1) mem.data = fixture ; return ; }
		std::string name = "c19_" + std::to_string (index) +	/* no pid: SD2 stores the file name in its resource fork, and the solo and the interleaved run must produce the same bytes */ ((sp.format & SF_FORMAT_TYPEMASK) == SF_FORMAT_SD2 ? ".sd2" : ".dat") ;
		path = scratch_dir () + "/" + name ; rpath = scratch_dir () + "/._" + name ; unlink (path.c_str ()) ; unlink (rpath.c_str ()) ;
		if (sp.mode != 1 && fixture.size () >= 4)
		{	uint32_t n ; memcpy (&n, fixture.data (), 4) ; if ((size_t) n + 4 > fixture.size ()) n = (uint32_t) (fixture.size () - 4) ;
			write_file (path, std::vector<uint8_t> (fixture.begin () + 4, fixture.begin () + 4 + n)) ;
			if (fixture.size () > (size_t) n + 4) write_file (rpath, std::vector<uint8_t> (fixture.begin () + 4 + n, fixture.end ())) ;
		}
	}
	void final_bytes (std::vector<uint8_t> &out)
	{	if (!sp.path) { out = mem.data ; return ; }
		read_file (path, out) ; std::vector<uint8_t> r2 ; if (read_file (rpath, r2)) out.insert (out.end (), r2.begin (), r2.end ()) ;
		unlink (path.c_str ()) ; unlink (rpath.c_str ()) ;
	}
	SNDFILE *open_it (int mode) { return sp.path ? sf_open (path.c_str (), mode, &info) : open_mem (mem, mode, &info) ; }
	int total_steps () const { return sp.mode == 2 ? 1 : sp.nops + 2 ; }
	void log (const std::string &s) { lines.push_back (s + " err=" + std::to_string (h ? sf_error (h) : -1)) ; }

	void step ()
	{	if (done) return ;
		if (pc == 0)
		{	memset (&info, 0, sizeof (info)) ;
			if (sp.mode == 1) { info.format = sp.format ; info.channels = sp.ch ; info.samplerate = 8000 + (int) (sp.seed % 5) * 8000 ; h = open_it (SFM_WRITE) ; }
			else { if ((sp.format & SF_FORMAT_TYPEMASK) == SF_FORMAT_RAW) { info.format = sp.format ; info.channels = sp.ch ; info.samplerate = 8000 ; } h = open_it (SFM_READ) ; }
			int ge = sf_error (nullptr) ; const char *gs = sf_strerror (nullptr) ;
			log (std::string ("open ") + (h ? "ok" : "NULL") + " global_err=" + std::to_string (ge) + " msg=" + (gs ? gs : "") + " frames=" + std::to_string ((long long) info.frames) + " ch=" + std::to_string (info.channels) + " fmt=" + std::to_string (info.format)) ;
			pc ++ ; if (!h || sp.mode == 2) { if (h) { sf_close (h) ; h = nullptr ; } done = true ; if (sp.path) { std::vector<uint8_t> drop ; final_bytes (drop) ; } }
			return ;
		}
		if (pc == sp.nops + 1)
		{	int rc = sf_close (h) ; h = nullptr ; std::vector<uint8_t> fb ; final_bytes (fb) ; lines.push_back ("close rc=" + std::to_string (rc) + " bytes=" + std::to_string (fb.size ()) + " hash=" + std::to_string (fnv1a (fb.data (), fb.size ()))) ;
			done = true ; pc ++ ; return ;
		}
		pc ++ ;
		int ch = info.channels > 0 ? info.channels : 1 ;
		if (sp.mode == 0)
		{	int op = (int) rng.below (10) ;
			if (op < 5)
			{	int t = (int) rng.below (4) ; long long fr = (long long) rng.below (3) == 0 ? (long long) rng.below (2000) : (long long) rng.below (200) ; if (vox) fr &= ~1ll ;
				Block b ((size_t) fr * ch * stype_size (t)) ; sf_count_t got = sf_readf_t (h, t, b.p, fr) ; if (got < 0) got = 0 ;
				log ("readf " + std::string (stype_name [t]) + " " + std::to_string (fr) + " -> " + std::to_string ((long long) got) + " data=" + std::to_string (fnv1a (b.p, (size_t) got * ch * stype_size (t)))) ; data_ops ++ ;
			}
			else if (op < 7)
			{	int whence = (int) rng.below (3) ; long long F = info.frames > 0 ? (long long) info.frames : 1 ; long long off = whence == SEEK_SET ? (long long) rng.below ((uint64_t) F + 200) - 100 : (long long) rng.below (2 * (uint64_t) F + 1) - F ;
				sf_count_t r = sf_seek (h, off, whence) ; log ("seek " + std::to_string (off) + "," + std::to_string (whence) + " -> " + std::to_string ((long long) r)) ;
			}
			else if (op == 7) { int s = SF_STR_FIRST + (int) rng.below (SF_STR_LAST) ; const char *p = sf_get_string (h, s) ; log ("get_string " + std::to_string (s) + " -> " + (p ? p : "(null)")) ; }
			else if (op == 8) { double v = 0 ; int rc = sf_command (h, SFC_CALC_SIGNAL_MAX, &v, sizeof (v)) ; char tmp [64] ; snprintf (tmp, sizeof (tmp), "%.17g", v) ; log ("calc_signal_max -> " + std::to_string (rc) + " " + tmp) ; data_ops ++ ; }
			else
			{	int which = (int) rng.below (3) ; int on = (int) rng.below (2) ;
				int cmd = which == 0 ? SFC_SET_NORM_FLOAT : which == 1 ? SFC_SET_SCALE_FLOAT_INT_READ : SFC_SET_CLIPPING ;
				int rc = sf_command (h, cmd, nullptr, on) ; log ("setting " + std::to_string (cmd) + "=" + std::to_string (on) + " -> " + std::to_string (rc)) ;
			}
		}
		else
		{	int op = (int) rng.below (10) ;
			if (op < 6)
			{	int t = (int) rng.below (4) ; long long fr = (long long) rng.below (3) == 0 ? (long long) rng.below (3000) : rng.below (2) ? (long long) rng.below (300) : (long long) rng.below (40) ; if (vox && ((fr * ch) & 1)) fr ++ ;
				Block b ((size_t) fr * ch * stype_size (t)) ; int style = (int) rng.below (ST_COUNT) ; int fmode = (cd->is_float && rng.below (2)) ? 1 : 0 ;
				gen_samples (b.p, t, (size_t) fr * ch, t == T_SHORT ? 16 : 32, fmode ? ST_NOISE : style, rng.next (), fmode) ;
				sf_count_t w = sf_writef_t (h, t, b.p, fr) ; wrote = true ; log ("writef " + std::string (stype_name [t]) + " " + std::to_string (fr) + " -> " + std::to_string ((long long) w)) ; data_ops ++ ;
			}
			else if (op == 6) { int s = SF_STR_FIRST + (int) rng.below (SF_STR_LAST) ; std::string v = "s" + std::to_string (rng.below (100000)) ; int rc = sf_set_string (h, s, v.c_str ()) ; log ("set_string " + std::to_string (s) + " -> " + std::to_string (rc)) ; }
			else if (op == 7) { int rc = sf_command (h, SFC_UPDATE_HEADER_NOW, nullptr, 0) ; log ("update_header -> " + std::to_string (rc)) ; }
			else if (op == 8) { int on = (int) rng.below (2) ; int rc = sf_command (h, SFC_TEST_IEEE_FLOAT_REPLACE, nullptr, on) ; log ("ieee_replace=" + std::to_string (on) + " -> " + std::to_string (rc)) ; }
			else
			{	int which = (int) rng.below (3) ; int on = (int) rng.below (2) ;
				int cmd = which == 0 ? SFC_SET_NORM_FLOAT : which == 1 ? SFC_SET_SCALE_INT_FLOAT_WRITE : SFC_SET_CLIPPING ;
				int rc = sf_command (h, cmd, nullptr, on) ; log ("setting " + std::to_string (cmd) + "=" + std::to_string (on) + " -> " + std::to_string (rc)) ;
			}
		}
	}
} ;

// ---------------------------------------------------------------- forked runs
// run fn in a child; it returns a payload through a pipe.  status: 0 ok, otherwise a description
static std::string in_child (const std::function<std::string ()> &fn, std::string &status)
{	int p [2] ; if (pipe (p) != 0) { status = "pipe failed" ; return "" ; }
	fflush (nullptr) ; pid_t pid = fork () ;
	if (pid == 0)
	{	close (p [0]) ; alarm (60) ; std::string out = fn () ; size_t w = 0 ; while (w < out.size ()) { ssize_t k = write (p [1], out.data () + w, out.size () - w) ; if (k <= 0) break ; w += (size_t) k ; }
		close (p [1]) ; _exit (0) ;
	}
	close (p [1]) ; std::string out ; char buf [65536] ; for ( ; ; ) { ssize_t k = read (p [0], buf, sizeof (buf)) ; if (k <= 0) break ; out.append (buf, (size_t) k) ; } close (p [0]) ;
	int st = 0 ; waitpid (pid, &st, 0) ;
	if (WIFSIGNALED (st)) status = "child killed by signal " + std::to_string (WTERMSIG (st)) ; else if (WEXITSTATUS (st) != 0) status = "child exit " + std::to_string (WEXITSTATUS (st)) ; else status = "" ;
	return out ;
}

static void put_str (std::string &o, const std::string &s) { uint32_t n = (uint32_t) s.size () ; o.append ((const char *) &n, 4) ; o += s ; }
static bool get_str (const std::string &in, size_t &pos, std::string &s) { if (pos + 4 > in.size ()) return false ; uint32_t n ; memcpy (&n, in.data () + pos, 4) ; pos += 4 ; if (pos + n > in.size ()) return false ; s = in.substr (pos, n) ; pos += n ; return true ; }

static std::string make_fixture (const ScriptSpec &sp)
{	// a file of the script's format: 50..2500 frames (several 4096-frame packets for ALAC), strings where supported; mode 2: that file cut short or with a damaged header
	Rng rng (sp.seed) ; OpenSpec s ; s.format = sp.format ; s.ch = sp.ch ; s.rate = 16000 ; const Codec *cd = codec_of (sp.format) ;
	bool alac = cd && cd->subtype >= SF_FORMAT_ALAC_16 && cd->subtype <= SF_FORMAT_ALAC_32 ;
	long long N = alac ? 5000 + (long long) rng.below (15000) : 50 + (long long) rng.below (2450) ; if ((N * sp.ch) & 1) N ++ ;
	std::vector<short> a ((size_t) N * sp.ch) ; for (auto &x : a) x = (short) rng.next () ;
	std::vector<uint8_t> data, fork ;
	if (sp.path)
	{	std::string name = "c19fx_" + std::to_string ((long) getpid ()) + ((sp.format & SF_FORMAT_TYPEMASK) == SF_FORMAT_SD2 ? ".sd2" : ".dat"), path = scratch_dir () + "/" + name, rpath = scratch_dir () + "/._" + name ;
		unlink (path.c_str ()) ; unlink (rpath.c_str ()) ; SF_INFO wi ; memset (&wi, 0, sizeof (wi)) ; wi.format = s.format ; wi.channels = s.ch ; wi.samplerate = s.rate ;
		SNDFILE *f = sf_open (path.c_str (), SFM_WRITE, &wi) ; if (!f) return "" ;
		sf_set_string (f, SF_STR_TITLE, ("title " + std::to_string (sp.seed % 1000)).c_str ()) ; sf_writef_short (f, a.data (), N) ; sf_close (f) ;
		read_file (path, data) ; read_file (rpath, fork) ; unlink (path.c_str ()) ; unlink (rpath.c_str ()) ;
	}
	else
	{	MemFile m ; SNDFILE *f = open_write_mem (m, s) ; if (!f) return "" ;
		sf_set_string (f, SF_STR_TITLE, ("title " + std::to_string (sp.seed % 1000)).c_str ()) ; sf_set_string (f, SF_STR_ARTIST, "someone") ;
		sf_writef_short (f, a.data (), N) ; sf_close (f) ; data = m.data ;
	}
	if (sp.mode == 2)
	{	int how = (int) rng.below (3) ;
		if (how == 0) data.resize (rng.below (12)) ; else if (how == 1) for (size_t i = 0 ; i < data.size () && i < 64 ; i++) data [i] = (uint8_t) rng.next () ; else data.assign (200, (uint8_t) 0xff) ;
		fork.clear () ;
	}
	std::string out ;
	if (sp.path) { uint32_t n = (uint32_t) data.size () ; out.append ((const char *) &n, 4) ; }
	out.append ((const char *) data.data (), data.size ()) ; if (sp.path) out.append ((const char *) fork.data (), fork.size ()) ;
	return out ;
}

static std::string pack (std::vector<Script> &ss)
{	std::string o ; for (auto &s : ss) { std::string t ; for (auto &l : s.lines) t += l + "\n" ; put_str (o, t) ; uint32_t d = (uint32_t) s.data_ops ; o.append ((const char *) &d, 4) ; } return o ; }

static std::vector<int> make_merge (int kind, uint64_t mseed, const std::vector<int> &steps)
{	std::vector<int> left = steps, order ; Rng r (mseed) ; int n = (int) steps.size () ; int total = 0 ; for (int s : steps) total += s ;
	int cur = 0, burst = 0 ;
	while ((int) order.size () < total)
	{	int pick = -1 ;
		if (kind == 1) { for (int k = 0 ; k < n ; k++) { int i = (cur + k) % n ; if (left [i] > 0) { pick = i ; break ; } } cur = pick + 1 ; }
		else if (kind == 2) { for (int i = 0 ; i < n ; i++) if (left [i] > 0) { pick = i ; break ; } }
		else if (kind == 3) { if (burst > 0 && left [cur] > 0) { pick = cur ; burst -- ; } else { do pick = (int) r.below ((uint64_t) n) ; while (left [pick] == 0) ; cur = pick ; burst = (int) r.below (4) ; } }
		else { do pick = (int) r.below ((uint64_t) n) ; while (left [pick] == 0) ; }
		left [pick] -- ; order.push_back (pick) ;
	}
	return order ;
}

static void all_merges (int a, int b, std::vector<int> &cur, std::vector<std::vector<int>> &out)
{	if (a == 0 && b == 0) { out.push_back (cur) ; return ; }
	if (a > 0) { cur.push_back (0) ; all_merges (a - 1, b, cur, out) ; cur.pop_back () ; }
	if (b > 0) { cur.push_back (1) ; all_merges (a, b - 1, cur, out) ; cur.pop_back () ; }
}

static Result run_case (const Case &c)
{	Result r ; r.sig = sig_of (c) ; r.dhash = fnv_str (c.str ()) ;
	std::vector<ScriptSpec> specs = specs_of (c) ; int ns = (int) specs.size () ; int merge = (int) c.geti ("merge") ;
	auto fail = [&] (const char *kind, const std::string &d) { Result x = r ; x.ok = false ; x.kind = kind ; x.detail = d ; return x ; } ;
	std::string st ;
	// fixtures, made in a child of their own
	std::string fx = in_child ([&] () { std::string o ; for (auto &sp : specs) put_str (o, sp.mode == 1 ? "" : make_fixture (sp)) ; return o ; }, st) ;
	if (!st.empty ()) return fail ("fixture_child_failed", st) ;
	std::vector<Script> proto (ns) ; { size_t pos = 0 ; for (int i = 0 ; i < ns ; i++) { std::string b ; if (!get_str (fx, pos, b)) return fail ("fixture_child_failed", "short payload") ; proto [i].sp = specs [i] ; proto [i].fixture.assign (b.begin (), b.end ()) ; } }
	// solo runs
	std::vector<std::string> solo (ns) ; std::vector<int> steps (ns), dataops (ns) ;
	for (int i = 0 ; i < ns ; i++)
	{	std::string out = in_child ([&] () { std::vector<Script> ss (1) ; ss [0].sp = proto [i].sp ; ss [0].fixture = proto [i].fixture ; ss [0].index = i ; ss [0].init () ; while (!ss [0].done) ss [0].step () ; return pack (ss) ; }, st) ;
		if (!st.empty ()) { Result x = fail ("solo_run_failed", "script " + std::to_string (i) + ": " + st) ; x.sig.set ("solo_codec", codec_of (specs [i].format)->name) ; return x ; }
		size_t pos = 0 ; if (!get_str (out, pos, solo [i])) return fail ("solo_run_failed", "short payload") ; uint32_t d = 0 ; memcpy (&d, out.data () + pos, 4) ; dataops [i] = (int) d ;
		steps [i] = (int) std::count (solo [i].begin (), solo [i].end (), '\n') ;
	}
	std::vector<std::vector<int>> merges ;
	if (merge == 4 && ns == 2) { std::vector<int> cur ; all_merges (steps [0], steps [1], cur, merges) ; if (merges.size () > 300) merges.resize (300) ; }
	else merges.push_back (make_merge (merge, (uint64_t) c.geti ("mseed"), steps)) ;
	int busy = 0 ; for (int d : dataops) if (d > 0) busy ++ ;
	r.nontrivial = busy >= 2 ;
	r.classes = { "merge:" + std::to_string (merge), "scripts:" + std::to_string (ns), std::string ("same_codec:") + (c.geti ("same") == 1 ? "1" : c.geti ("same") == 2 ? "family" : "0"), "merges_run:" + std::string (merges.size () > 1 ? ">1" : "1") } ;
	{ int nr = 0, nw = 0, nb = 0 ; for (auto &sp : specs) (sp.mode == 0 ? nr : sp.mode == 1 ? nw : nb) ++ ; r.classes.push_back (std::string ("modes:") + (nr ? "r" : "") + (nw ? "w" : "") + (nb ? "x" : "")) ; }
	for (auto &order : merges)
	{	std::string out = in_child ([&] ()
		{	std::vector<Script> ss (ns) ; for (int i = 0 ; i < ns ; i++) { ss [i].sp = proto [i].sp ; ss [i].fixture = proto [i].fixture ; ss [i].index = i ; ss [i].init () ; }
			for (int i : order) ss [i].step () ;
			for (auto &s : ss) while (!s.done) s.step () ;
			return pack (ss) ;
		}, st) ;
		std::string os ; for (int i : order) os += (char) ('0' + i) ;
		if (!st.empty ()) return fail ("interleaved_run_failed", st + " order=" + os) ;
		size_t pos = 0 ;
		for (int i = 0 ; i < ns ; i++)
		{	std::string t ; if (!get_str (out, pos, t)) return fail ("interleaved_run_failed", "short payload") ; pos += 4 ;
			if (t != solo [i])
			{	std::vector<std::string> a = split (solo [i], '\n'), b = split (t, '\n') ; size_t k = 0 ; while (k < a.size () && k < b.size () && a [k] == b [k]) k ++ ;
				Result x = fail ("handle_influenced_by_another", "script " + std::to_string (i) + " (" + format_str (specs [i].format) + " mode " + std::to_string (specs [i].mode) + ") step " + std::to_string (k) + ": alone [" + (k < a.size () ? a [k] : "") + "] interleaved [" + (k < b.size () ? b [k] : "") + "] order=" + os) ;
				x.sig.set ("victim_codec", codec_of (specs [i].format)->name) ; return x ;
			}
		}
	}
	return r ;
}

int main (int argc, char **argv)
{	init_io () ;
	ctx.property = "C19" ;
	ctx.parse (argc, argv) ;
	scratch_dir () ;
	signal (SIGPIPE, SIG_IGN) ;
	int rc = rc_main (ctx, gen_case, run_case, sig_of) ;
	rm_scratch () ;
	return rc ;
}
