// C06 - decoded audio depends only on frame position (partition and seek consistency).
// Same interpreter as C05's read side; the generator is seek-heavy (every whence, targets at 0, mid-block,
// block edges +-1, F-1, F, out of range) and reads cross block edges after each seek.
#include "vf_readhist.hpp"
using namespace vf ;

static Ctx ctx ;

static Case gen_case ()
{	const FmtEntry *e = pickEntry (all_vio_entries ()) ;
	Case c ;
	c.set ("fmt", format_str (e->format)) ;
	c.seti ("format", e->format) ;
	int ch = pickChannels (e, 15) ;
	c.seti ("ch", ch) ;
	int rate = *rc::gen::element (8000, 11025, 22050, 44100) ;
	c.seti ("rate", rate) ;
	int B = nominal_block (e->format, ch, rate) ;
	long long maxN = (ctx.thorough ? 65536 : 12288) / ch ; if (maxN < 8) maxN = 8 ;
	// at least a few blocks so that mid-block targets exist
	long long n = *lengthGen (B, maxN) ;
	if (B > 1 && *rangeOf<int> (0, 1)) n = (long long) B * *rangeOf<int> (2, 5) + *rangeOf<int> (-1, B / 2) ;
	if (n > maxN) n = maxN ; if (n < 0) n = 0 ;
	c.seti ("n", n) ;
	c.set ("style", style_name [*rangeOf<int> (0, ST_COUNT - 1)]) ;
	c.seti ("seed", (long long) *seedGen ()) ;
	c.set ("wt", stype_name [*rangeOf<int> (0, 3)]) ;
	int nops = *rangeOf<int> (2, 24) ;
	std::vector<std::string> ops ;
	for (int i = 0 ; i < nops ; i++)
	{	if (*rangeOf<int> (0, 1) == 0) ops.push_back (gen_seek_op ()) ;
		else ops.push_back (gen_read_op (false)) ;
	}
	c.set ("ops", join_ops (ops)) ;
	return c ;
}

static Case sig_of (const Case &c)
{	Case s = read_sig_of (c) ;
	const Codec *cd = codec_of ((int) c.geti ("format")) ;
	if (cd && cd->granular) s.set ("bytes_odd", (c.geti ("n") * c.geti ("ch") * cd->bytes) & 1 ? "1" : "0") ;
	return s ;
}

static Result run_case (const Case &c)
{	std::vector<std::string> labels ;
	Result r = run_read_history (hist_from_case (c), labels) ;
	r.sig = sig_of (c) ;
	int format = (int) c.geti ("format") ; const Codec *cd = codec_of (format) ;
	r.dhash = fnv_str (c.gets ("fmt") + "|" + c.gets ("ch") + "|" + c.gets ("n") + "|" + c.gets ("ops")) ;
	bool mid = false ; for (auto &l : labels) if (l == "seek:midblock" || l == "seek:inside") mid = true ;
	r.nontrivial = r.nontrivial && mid ;
	r.classes = { std::string ("container:") + major_name (format), std::string ("codec:") + cd->name } ;
	std::sort (labels.begin (), labels.end ()) ; labels.erase (std::unique (labels.begin (), labels.end ()), labels.end ()) ;
	for (auto &l : labels) r.classes.push_back (l) ;
	return r ;
}

int main (int argc, char **argv)
{	init_io () ;
	ctx.property = "C06" ;
	ctx.parse (argc, argv) ;
	scratch_dir () ;
	int rc = rc_main (ctx, gen_case, run_case, sig_of) ;
	rm_scratch () ;
	return rc ;
}
