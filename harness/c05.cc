// C05 - read and write calls honour their count, bounds and position contract.
// Two case families: mode=read (history of reads of every type/variant/size class, a few seeks, sf_read_raw)
// and mode=write (history of writes through the 8 entry points + sf_write_raw).
#include "vf_readhist.hpp"
using namespace vf ;

static Ctx ctx ;

static Case gen_case ()
{	const FmtEntry *e = pickEntry (all_vio_entries ()) ;
	Case c ;
	c.set ("fmt", format_str (e->format)) ;
	c.seti ("format", e->format) ;
	int ch = pickChannels (e, 12) ;
	c.seti ("ch", ch) ;
	int rate = *rc::gen::element (8000, 11025, 44100, 48000) ;
	c.seti ("rate", rate) ;
	bool wr = *rangeOf<int> (0, 3) == 0 ;
	c.set ("mode", wr ? "write" : "read") ;
	long long maxN = (ctx.thorough ? 65536 : 12288) / ch ; if (maxN < 8) maxN = 8 ;
	c.seti ("n", *lengthGen (nominal_block (e->format, ch, rate), maxN)) ;
	c.set ("style", style_name [*rangeOf<int> (0, ST_COUNT - 1)]) ;
	c.seti ("seed", (long long) *seedGen ()) ;
	c.set ("wt", stype_name [*rangeOf<int> (0, 3)]) ;
	int nops = *rangeOf<int> (1, 12) ;
	std::vector<std::string> ops ;
	for (int i = 0 ; i < nops ; i++)
	{	if (!wr && *rangeOf<int> (0, 5) == 0) ops.push_back (gen_seek_op ()) ;
		else ops.push_back (gen_read_op (is_granular (e->format))) ;	// same op grammar is used for writes (r -> write, w -> write_raw)
	}
	c.set ("ops", join_ops (ops)) ;
	return c ;
}

static Case sig_of (const Case &c)
{	Case s = read_sig_of (c) ;
	const Codec *cd = codec_of ((int) c.geti ("format")) ;
	if (cd && cd->granular) s.set ("bytes_odd", (c.geti ("n") * c.geti ("ch") * cd->bytes) & 1 ? "1" : "0") ;
	return s ;
}

static Result run_write_history (const Case &c, std::vector<std::string> &labels)
{	auto fail = [&] (const char *kind, const std::string &d) { Result x ; x.ok = false ; x.kind = kind ; x.detail = d ; return x ; } ;
	ReadHist h = hist_from_case (c) ;
	const Codec *cd = codec_of (h.spec.format) ; int ch = h.spec.ch ;
	int B = nominal_block (h.spec.format, ch, h.spec.rate) ;
	MemFile mem ;
	SNDFILE *f = open_write_mem (mem, h.spec) ;
	if (!f) return fail ("open_write_failed", sf_strerror (nullptr)) ;
	long long pos = 0 ; Rng r (h.seed ^ 0x3333) ; bool nontrivial = false ; int opno = 0 ;
	for (auto &op : h.ops)
	{	opno ++ ;
		std::string where = " (op " + std::to_string (opno) + " " + op + " pos=" + std::to_string (pos) + ")" ;
		long long fr ; sf_count_t got, want ;
		if (op.size () >= 4 && op [0] == 'r')
		{	int t = op [1] == 's' ? T_SHORT : op [1] == 'i' ? T_INT : op [1] == 'f' ? T_FLOAT : T_DOUBLE ;
			bool items = op [2] == 'i' ; int cls = op [3] - '0' ; int ts = stype_size (t) ;
			fr = size_class (cls, h.N, B, ch, ts, r) ; if (fr > 40000 / ch + 1) fr = 40000 / ch + 1 ;
			if (cd->subtype == SF_FORMAT_VOX_ADPCM && !h.vox_allow_odd && ((fr * ch) & 1)) { fr ++ ; labels.push_back ("excluded_known:vox_odd_forced_even") ; }
			Block b ((size_t) fr * ch * ts) ; fill_any (b.p, t, (size_t) fr * ch, h.style, h.seed + (uint64_t) pos) ;
			want = items ? fr * ch : fr ;
			got = items ? sf_write_t (f, t, b.p, fr * ch) : sf_writef_t (f, t, b.p, fr) ;
			if (fr % B != 0 || fr * ch * ts > 8192) nontrivial = true ;
			labels.push_back (std::string ("write:") + (items ? "items" : "frames")) ;
		}
		else if (op.size () >= 2 && op [0] == 'w' && is_granular (h.spec.format))
		{	int cls = op [1] - '0' ; int bw = cd->bytes * ch ;
			fr = size_class (cls, h.N, 1, ch, cd->bytes, r) ; if (fr > 40000 / ch + 1) fr = 40000 / ch + 1 ;
			Block b ((size_t) fr * bw) ; Rng rr (h.seed + (uint64_t) pos) ; for (size_t i = 0 ; i < b.n ; i++) b.p [i] = (uint8_t) rr.next () ;
			want = (sf_count_t) b.n ;
			got = sf_write_raw (f, b.p, (sf_count_t) b.n) ;
			if (got == want) got = want = fr ;	// compare in frames below
			labels.push_back ("write:raw") ; nontrivial = true ;
		}
		else continue ;
		if (got != want) { std::string e = sf_err_text (f) ; sf_close (f) ; return fail ("write_count_wrong", "returned " + std::to_string ((long long) got) + " requested " + std::to_string ((long long) want) + " err=" + e + where) ; }
		if (sf_error (f) != 0) { std::string e = sf_err_text (f) ; sf_close (f) ; return fail ("error_after_write", e + where) ; }
		pos += fr ;
		sf_count_t hr = -2, hw = -2 ; sf_verif_get_positions (f, &hr, &hw) ;
		if (hw != pos) { sf_close (f) ; return fail ("write_position_not_advanced_by_count", "internal write position " + std::to_string ((long long) hw) + " model " + std::to_string (pos) + where) ; }
		sf_count_t cur = sf_seek (f, 0, SEEK_CUR) ;
		if (cur != pos && cur != -1) { sf_close (f) ; return fail ("seek_cur_ne_write_position", std::to_string ((long long) cur) + where) ; }
		SF_INFO ci ; memset (&ci, 0, sizeof (ci)) ;
		if (sf_command (f, SFC_GET_CURRENT_SF_INFO, &ci, sizeof (ci)) == 0 && ci.frames != pos)
		{	sf_close (f) ; return fail ("frame_count_not_advanced_by_count", "SFC_GET_CURRENT_SF_INFO.frames " + std::to_string ((long long) ci.frames) + " model " + std::to_string (pos) + where) ; }
		int inv = sf_verif_check_invariants (f) ;
		if (inv) { sf_close (f) ; return fail ("invariant", "mask " + std::to_string (inv) + where) ; }
	}
	if (sf_close (f) != 0) return fail ("close_failed", "") ;
	Result res ; res.nontrivial = nontrivial ; return res ;
}

static Result run_case (const Case &c)
{	std::vector<std::string> labels ;
	Result r = c.gets ("mode") == "write" ? run_write_history (c, labels) : run_read_history (hist_from_case (c), labels) ;
	r.sig = sig_of (c) ;
	int format = (int) c.geti ("format") ; const Codec *cd = codec_of (format) ;
	r.dhash = fnv_str (c.gets ("fmt") + "|" + c.gets ("ch") + "|" + c.gets ("n") + "|" + c.gets ("mode") + "|" + c.gets ("ops")) ;
	r.classes = { std::string ("container:") + major_name (format), std::string ("codec:") + cd->name, "mode:" + c.gets ("mode") } ;
	std::sort (labels.begin (), labels.end ()) ; labels.erase (std::unique (labels.begin (), labels.end ()), labels.end ()) ;
	for (auto &l : labels) r.classes.push_back (l) ;
	return r ;
}

int main (int argc, char **argv)
{	init_io () ;
	ctx.property = "C05" ;
	ctx.parse (argc, argv) ;
	scratch_dir () ;
	int rc = rc_main (ctx, gen_case, run_case, sig_of) ;
	rm_scratch () ;
	return rc ;
}
