"""Per-property configuration for ./check: stages (harness binaries and budgets per tier), the level
claimed, the non-triviality rule and the assumptions written into the evidence file."""

BASE_ASSUME = [
    "library compiled by clang 14 -O1 with ASan + -fsanitize=bounds (bounds off for the bundled src/ALAC, see DESIGN 1) and -DLIBSNDFILE_VERIF; the gcc -O2 objects ctest runs are not exercised",
    "build configuration of this image: no external Xiph/MPEG libraries, ENABLE_EXPERIMENTAL_CODE=0, little-endian x86-64",
    "reference models and oracles in /verif/harness are trusted; rapidcheck and the clang sanitizer runtimes are trusted",
    "exploration only: nothing is claimed about inputs outside the generated/enumerated set",
]

CUSTOM = {}

PROPS = {
    "C01": {
        "level": "exploration",
        "rule": "rapidcheck-generated (format triple from the library's own enumeration x channels x lossless API type x N biased to block/packet/staging-buffer edges x sample style x route x write partition); "
                "non-trivial = N >= 1 and the buffer holds >= 2 distinct sample values; distinct = hash of (format, channels, type, N, style, split, float mode, route)",
        "assumptions": BASE_ASSUME,
        "stages": [
            {"bin": "c01", "quick": {"cases": 6000, "workers": 16, "budget": 150}, "thorough": {"cases": 60000, "workers": 16, "budget": 1200}},
        ],
    },
}
NOT_APPLICABLE = {}

PROPS["C04"] = {
    "level": "exploration",
    "rule": "rapidcheck-generated (catalogue entry x channels up to the container maximum x sample rate incl. field-width edges x N biased to block edges x partition over calls and sample types x SF_INFO.frames at open in {0,N,N+1000,-1,INT64_MAX} x route); "
            "a file written with SF_ENDIAN_CPU must equal, byte for byte, the one written with the host's byte order named explicitly; non-trivial = N >= 1; distinct = hash of (format, channels, rate class, N, split mode, frames field, route)",
    "assumptions": BASE_ASSUME + ["block length B of WAV/W64 ADPCM is read from the fmt chunk of the produced file by an independent walker; other B values are the table of DESIGN Appendix A.1",
                                  "sample-rate equality is asserted only where the container's rate field can hold the value exactly (DESIGN Appendix A.2)"],
    "stages": [
        {"bin": "c04", "quick": {"cases": 6000, "workers": 16, "budget": 150}, "thorough": {"cases": 60000, "workers": 16, "budget": 1200}},
    ],
}

PROPS["C05"] = {
    "level": "exploration",
    "rule": "rapidcheck-generated call histories (1-12 ops) on a file of every catalogue entry: reads through the 4 types x item/frame variants with request classes {1, odd, B-1, B+1, > 8 KiB, remaining, remaining+1, 3*remaining+2}, seeks, sf_read_raw; "
            "write histories through the 8 typed entry points + sf_write_raw; every buffer is an exact-size heap block (ASan redzones); non-trivial = a request that is not a multiple of the codec block, exceeds 8192 bytes or crosses end of data; distinct = hash of (format, channels, N, mode, op list)",
    "assumptions": BASE_ASSUME + ["the reference stream is one sequential read of the whole file through the same sample type on a fresh handle (count/bounds/position contract is under test, not codec fidelity)",
                                  "the content of buffer[r..requested) after a partial read is not constrained (the statement demands zero fill only at end of data)"],
    "stages": [
        {"bin": "c05", "quick": {"cases": 8000, "workers": 16, "budget": 150}, "thorough": {"cases": 40000, "workers": 16, "budget": 1200}},
    ],
}
PROPS["C06"] = {
    "level": "exploration",
    "rule": "rapidcheck-generated seek/read histories (2-24 ops) on a file of every catalogue entry: seek whence in {SET,CUR,END} (+SFM_READ), targets {0, random, block edge -1/0/+1, F-1, F, beyond F, negative, current}, reads of every type/variant/size class; "
            "oracle: data after a successful seek to k equals frames k.. of the sequential reference, seek returns the target or -1 with an error, SEEK_CUR(0) equals the model position; non-trivial = a successful seek strictly inside the file followed by a read; distinct = hash of (format, channels, N, op list)",
    "assumptions": BASE_ASSUME + ["after an in-range seek that the codec refuses (-1 with an error, allowed by the statement) the history stops: the stream position after a refused seek is not specified"],
    "stages": [
        {"bin": "c06", "quick": {"cases": 6000, "workers": 16, "budget": 150}, "thorough": {"cases": 40000, "workers": 16, "budget": 1200}},
    ],
}

PROPS["C07"] = {
    "level": "exploration",
    "rule": "rapidcheck-generated (catalogue entry x channels x N x sample type/style x two independent partitions P, Q into write calls with item/frame mixes, Q optionally with SFC_UPDATE_HEADER_NOW after calls x two pinned clock values); "
            "oracle: bytes(P,t1) == bytes(Q,t1), bytes(P,t1) == bytes(P,t2) after masking the PEAK timestamp (and the MAT5 header date text); the same call sequence is run twice on heaps with different histories (second stage: allocator without fill and quarantine) and must give the same bytes; non-trivial = N >= 1, P != Q and a call boundary not aligned to the codec block; distinct = hash of (format, channels, N, type, P, Q)",
    "assumptions": BASE_ASSUME + ["the process clock is pinned by linking the harness with --wrap=time,gettimeofday; 'another process' is approximated by a second run in the same process with a different clock value (process isolation proper is C19)"],
    "stages": [
        {"bin": "c07", "quick": {"cases": 10000, "workers": 16, "budget": 150}, "thorough": {"cases": 40000, "workers": 16, "budget": 1200}},
        # second pass with an allocator that hands freed blocks straight back, unfilled (see C19): output bytes that come from uninitialised
        # heap memory differ between the two runs of the same calls, because the harness gives the heap another history in between
        {"bin": "c07", "tag": "_reuse", "no_replays": True,
         "env": {"ASAN_OPTIONS": "detect_leaks=1:abort_on_error=0:exitcode=99:allocator_may_return_null=1:detect_stack_use_after_return=0:max_malloc_fill_size=0:quarantine_size_mb=0:thread_local_quarantine_size_kb=0"},
         "quick": {"cases": 3000, "workers": 16, "budget": 150}, "thorough": {"cases": 20000, "workers": 16, "budget": 1200}},
    ],
}
PROPS["C11"] = {
    "level": "exploration",
    "rule": "rapidcheck-generated write histories on every container with a rewritable header (all but RAW; CAF/ALAC excluded by the statement): partition into write calls with explicit SFC_UPDATE_HEADER_NOW at random points or SFC_SET_UPDATE_HEADER_AUTO; optionally a seek back, an overwrite and an update in the middle of the file followed by a write without a seek; optionally an RDWR handle with a read between the last write and the update; optionally the audio through sf_write_raw; crash point = byte image of the virtual file right after each update / each write in auto mode, parsed by an independent handle; the finished file must decode to the same frames as a twin written in one call with no update request; "
            "non-trivial = a second or later snapshot taken at a position that is not a multiple of the block length (any second snapshot for sample-granular encodings); distinct = hash of (format, channels, N, type, partition, mode). coverage.snapshots_checked counts the crash points examined",
    "assumptions": BASE_ASSUME + ["a crash is modelled as a copy of the bytes the virtual I/O layer had accepted when the update returned (no partial write of the update itself)"],
    "stages": [
        {"bin": "c11", "quick": {"cases": 10000, "workers": 16, "budget": 150}, "thorough": {"cases": 40000, "workers": 16, "budget": 1200}},
    ],
}

PROPS["C10"] = {
    "level": "exploration",
    "engine": "enumeration",
    "technique": "exhaustive enumeration of the finite grid with a differential oracle (sf_format_check vs. sf_open + write + re-open)",
    "exhaustive": True,
    "rule": "complete enumeration: majors x subtypes (from SFC_GET_FORMAT_MAJOR/SUBTYPE at run time) x endian {FILE,LITTLE,BIG,CPU} x channels {0,1,2,3,8,9,256,257,1024,1025} x samplerate {-1,0,1,8000,44100,2^31-1}, plus all indices -2..count+2 of the three list commands and SFC_GET_FORMAT_INFO on every returned word; "
            "every grid point is non-trivial (sf_format_check and sf_open are both evaluated; TRUE points additionally write 4 frames through each of the 4 types, close and re-open); distinct = (format word, channels, rate); thorough adds channels 1..1025 at 44100 Hz for every major x subtype",
    "assumptions": BASE_ASSUME + ["SD2 is opened by path, everything else through virtual I/O", "4 frames (not 3) are written per type so that RAW/VOX's odd-count defect (listed under C04/C05) does not mask this property"],
    "stages": [
        {"bin": "c10", "quick": {"cases": 0, "workers": 16, "budget": 600}, "thorough": {"cases": 0, "workers": 16, "budget": 1800}},
    ],
}

PROPS["C17"] = {
    "level": "exploration",
    "engine": "enumeration",
    "technique": "exhaustive enumeration of the command x handle x datasize x data grid under ASan with exact-size heap blocks, plus a state-digest oracle for queries",
    "exhaustive": True,
    "rule": "complete enumeration: every SFC_* id of sndfile.h + 4 undefined ids x handle {NULL, read, write, rdwr} on {WAV PCM16, WAV float, WAVEX, RF64, AIFF, CAF, RAW} with and without stored metadata x datasize {0..natural size+8 (every value; for SF_CUES every size within -2..+5 of each whole-cue boundary), 4096, 16385, 65536} x data {NULL, heap block of exactly datasize bytes filled with zeros / 0xFF / random / plausible length fields / lying length fields}; "
            "NULL handle both in a fresh state and right after a failed open (process-wide log and error populated); each group runs in a forked child that announces the cell before executing it; the state digest includes the stored per-channel peaks (test files have a louder second channel); non-trivial = data != NULL and datasize != the natural struct size (cells are distinct by construction, counted); query commands are additionally checked with a digest of positions, SF_INFO, norm/clip settings, all strings, bext, cart, cues, instrument, channel map and the backing bytes",
    "assumptions": BASE_ASSUME + ["'natural size' per command is the harness' table (sizeof of the documented struct); a zero-size request passes a pointer one past a heap block so that any access is an ASan report",
                                  "state-changing commands are followed by a 4-frame write and sf_close inside the same cell so damage they cause is attributed to that cell"],
    "stages": [
        {"bin": "c17", "quick": {"cases": 0, "workers": 16, "budget": 600}, "thorough": {"cases": 0, "workers": 16, "budget": 1800}},
    ],
}

PROPS["C20"] = {
    "level": "exploration",
    "engine": "enumeration + rapidcheck",
    "technique": "exhaustive enumeration of code spaces against independent reference implementations (G.711, IEEE-754 bit patterns, byte swaps) and property-based testing of the ADPCM block decoders against reference decoders",
    "rule": "enumeration: all 256 G.711 codes through the 4 read types and all 65536 16-bit inputs through the 4 write types for mu-law and A-law (decode table == ITU-T G.711 formulas, encode = interval quantiser, enc(dec(c)) == c, and the int image x << 16 of every 16-bit value gets exactly the code the short gets); every normal float32 exponent (254) x both signs x {69 mantissa edge patterns + 32K stratified mantissas (quick) | all 2^23 mantissas (thorough)} x both byte orders x read and write through the portable serialisers (SFC_TEST_IEEE_FLOAT_REPLACE); every normal double exponent (2046) x both signs x 4096 (quick) / 2^19 (thorough) mantissas likewise; ENDSWAP_16 for all 2^16 inputs, 32/64-bit swaps and psf_get/put helpers on bit walks + 200K random words; "
            "rapidcheck: WAV/W64 IMA, WAV/W64 MS ADPCM and AIFF ima4 files whose block bytes are generated (random, all-00/FF/77/88 nibbles, adversarial headers: extreme predictors, step index 0..88 and illegal, MS predictor 0..6 and illegal) for the writer's block sizes 256/512/1024/2048 (34 for ima4), 1-2 channels, decoded through the API and compared sample-exact with independent reference decoders; every enumerated pattern counts as distinct and encode-after-decode identity through all four entry types, the level 0 as G.711 positive zero; non-trivial (counted), ADPCM cases are distinct by hash of the case",
    "assumptions": BASE_ASSUME + ["G.711 encode oracle: the sign-magnitude input lies in the quantisation interval of the level it is mapped to, allowing for the 2 (mu-law) / 3 (A-law) low bits libsndfile drops when reducing 16-bit input to 14/13 bits - the statement's 'nearest level' is not what G.711 itself does at segment boundaries (DESIGN Corrections)",
                                  "MS ADPCM reference uses an arithmetic shift for the /256 of the predictor (the SoX/libsndfile family); headers outside the format definition (step index > 88, MS predictor >= 7, negative or overflowing delta) only get the memory-safety check",
                                  "thorough tier enumerates all 2^32 float patterns with a normal exponent; quick is a stratified 2^24 subset"],
    "stages": [
        {"bin": "c20", "quick": {"cases": 3000, "workers": 16, "budget": 300}, "thorough": {"cases": 20000, "workers": 16, "budget": 3000}},
    ],
}

PROPS["C02"] = {
    "level": "exploration",
    "engine": "enumeration",
    "technique": "enumeration of stored codes / inputs (exhaustive for 8- and 16-bit) against a reference conversion model with pinned arithmetic, in the default and the SSE2 build",
    "rule": "enumeration per (encoding x byte order x API type x setting combination): read kernels over all 2^8 codes (PCM_S8, PCM_U8, ULAW, ALAW), all 2^16 codes (PCM_16), boundary set {0, +-1, MIN, MAX, +-2^k, +-2^k+-1} + 2^14 (quick) / 2^20 (thorough) random codes (PCM_24, PCM_32), boundary + random values (FLOAT, DOUBLE) under every combination of NORM_FLOAT, NORM_DOUBLE, CLIPPING (and SCALE_FLOAT_INT_READ for float files); "
            "write kernels over all 2^16 shorts, boundary + random ints, boundary (+-1, 1-ulp, k+0.5 ties, just in/out of range) + random float/double inputs under NORM_*, CLIPPING (and SCALE_INT_FLOAT_WRITE for float files), file bytes compared with the model; every container/endian option that offers a PCM/float encoding gets the boundary set through 4 write x 4 read types; both the default and the -DUSE_SSE2 build of the library; non-trivial = a (kernel, settings, value) triple on which the model makes an assertion (counted)",
    "assumptions": BASE_ASSUME + ["float->int writes without clipping are only asserted for in-range input; with clipping on, in-range input may be scaled by 2^(w-1)-1 or by 2^(w-1) (the documentation only promises 1.0 -> largest integer), out-of-range input must give exactly MAX / MIN",
                                  "SFC_SET_SCALE_FLOAT_INT_READ has no documented formula: only order preservation, |r| <= MAX and peak -> MAX within 1e-4 are asserted",
                                  "G.711 write-side code mapping is C20's subject; here G.711 is covered on the read side (decode -> short/int/float/double under the NORM settings)"],
    "stages": [
        {"bin": "c02", "quick": {"cases": 0, "workers": 16, "budget": 300}, "thorough": {"cases": 0, "workers": 16, "budget": 1800}},
        {"bin": "c02", "variant": "sse2", "tag": ".sse2", "quick": {"cases": 0, "workers": 16, "budget": 300}, "thorough": {"cases": 0, "workers": 16, "budget": 1800}},
    ],
}

PROPS["C08"] = {
    "level": "exploration",
    "engine": "rapidcheck + bounded enumeration",
    "technique": "model-based testing of SFM_RDWR call histories (in-memory reference model), bounded-exhaustive to depth 3/4 plus rapidcheck-generated longer histories",
    "rule": "every sample-granular catalogue entry whose SFM_RDWR open succeeds (probed at start) x channels x start state {empty, pre-populated 1/7/100/1000 frames} x history of <= 30 ops over {write k via the 8 typed entry points, read k, seek (SET/CUR/END x {plain, |SFM_READ, |SFM_WRITE}) to {0, random, len, len-1, rpos, wpos, beyond len, negative}, SFC_FILE_TRUNCATE, SFC_UPDATE_HEADER_NOW, close + re-open RDWR}, on real files; "
            "plus every history of depth <= 3 (quick) / 4 (thorough) over a 12-letter concrete alphabet on 7 representative formats x 2 start states; after every op the positions (SEEK_CUR|SFM_READ, SEEK_CUR|SFM_WRITE) and the frame count equal the model, every read equals the model's frames (gap frames are wildcards); a fresh read-only open at the end sees exactly the model; non-trivial = a mode-qualified seek, a truncate, or a write at a position other than where the last read ended; distinct = hash of (format, channels, start, ops)",
    "assumptions": BASE_ASSUME + ["values written are integers that every API type represents exactly with NORM_FLOAT/NORM_DOUBLE off (G.711 through the integer entry points only), so reads through any type are comparable bit for bit",
                                  "plain SEEK_CUR is generated only when both pointers are equal, and never with offset 0 (in RDWR that performs a real seek to the write pointer; the docs do not say which pointer it is relative to)",
                                  "1-byte encodings in containers that pad odd sizes are generated with even channel counts only (the pad byte is a listed finding of C05/C06)"],
    "stages": [
        {"bin": "c08", "quick": {"cases": 4000, "workers": 16, "budget": 200}, "thorough": {"cases": 30000, "workers": 16, "budget": 1500}},
    ],
}

PROPS["C09"] = {
    "level": "exploration",
    "rule": "rapidcheck-generated histories (1-25 calls) on handles in mode {read, write, rdwr} over 12 representative formats (one per wrapper family incl. block codecs and non-seekable ones): valid reads/writes/seeks/commands/set_string mixed with each invalid class - wrong-mode read/write, item count not divisible by channels, negative count, unknown whence, whence with the wrong mode bits, out-of-range and negative seek, unknown command id, NULL data, set_string on a read handle / NULL / unknown type, set_chunk NULL / on a format without chunks, and 10 failing sf_open variants (bad mode, NULL SF_INFO, zero major/minor, unknown format, missing file, empty file, directory, VIO table without read, garbage content; and VIO tables lacking the write / read / get_filelen / seek callback the mode needs, two of them on a valid image opened RDWR); a write on a descriptor the kernel refuses (read-only descriptor, /dev/full) must fail, record an error and give sf_strerror (handle) and sf_error_str a real text; "
            "plus the whole sf_error_number table 0..SFE_MAX_ERROR; raw reads / writes whose byte count is not a whole number of frames; a seek beyond the end of a write / RDWR handle of a block codec (a refusal must leave the digest, file bytes included, unchanged); over-long path names; every failing open preceded by a successful one so that the global error is really set by the failure; 22 representative formats (second group added for the remaining seek / codec wrappers); cue points set on a fresh write handle, then a cue list whose count does not fit its size / an instrument block of the wrong size: refused, and the stored cue points and instrument (now part of the state digest) unchanged; non-trivial = a history with at least one invalid call followed by a valid one; distinct = hash of (format, mode, ops)",
    "assumptions": BASE_ASSUME + ["where an error is 'recorded' follows each call's documentation: sf_error(handle) for read/write/seek, the return value for sf_set_string / sf_set_chunk / sf_command(GET_CURRENT_SF_INFO), sf_error(NULL) for sf_open",
                                  "zero-length reads/writes are not generated (they return before the error is cleared; the statement does not classify them)",
                                  "LeakSanitizer's recoverable check runs after every history; its first report ends leak checking in that worker (a leaked block would be reported again for every later case), so leak failures are reported unshrunk"],
    "stages": [
        {"bin": "c09", "quick": {"cases": 2500, "workers": 16, "budget": 200}, "thorough": {"cases": 40000, "workers": 16, "budget": 1500}},
    ],
}

PROPS["C18"] = {
    "level": "exploration",
    "rule": "rapidcheck-generated: (peak) WAV/WAVEX/AIFF/CAF (+RF64 with SFC_SET_ADD_PEAK_CHUNK) x FLOAT/DOUBLE x channels x buffers on an exact 1/1024 grid with the maximum planted at the first frame / last frame / a write-call boundary / as ties within a call, across calls and across channels / negative / all-zero x random write partition x the 4 write types; model = per-channel max |x| and frame index of its first occurrence, compared with the PEAK chunk located by an independent chunk walker and with SFC_GET_SIGNAL_MAX / SFC_GET_MAX_ALL_CHANNELS after re-open; "
            "(calc) every catalogue entry x read position {start, middle, end, after a read} x NORM_DOUBLE/NORM_FLOAT settings: SFC_CALC_SIGNAL_MAX / NORM / MAX_ALL_CHANNELS / NORM_MAX_ALL_CHANNELS into a garbage-filled array equal the maximum of an independent sequential double read, position, settings and the next frame delivered are unchanged; in a quarter of the peak cases the file is closed after some of the calls, re-opened read/write and the rest appended (second session); non-trivial = >= 2 channels with a tie or call-boundary maximum (peak) or a non-zero read position (calc); distinct = hash of the case",
    "assumptions": BASE_ASSUME + ["PEAK values are compared as (float) max because the chunk stores 32-bit floats", "for CALC on lossy codecs 'the stored samples' are what an independent sequential decode delivers"],
    "stages": [
        {"bin": "c18", "quick": {"cases": 8000, "workers": 16, "budget": 200}, "thorough": {"cases": 60000, "workers": 16, "budget": 1500}},
    ],
}

PROPS["C13"] = {
    "level": "exploration",
    "rule": "byte order {container default, explicit LITTLE / BIG where sf_format_check accepts it: RIFX, AIFF-C sowt, little-endian CAF} x rapidcheck-generated: container {WAV, WAVEX, RF64, AIFF, CAF} x encoding x channels x 0..200 chunks (counts biased to 19-22, 30-33, 46-49 = the table growth steps) x ids {distinct 4-char, few ids with duplicates, 1-3 chars, mixed} x payload lengths {0..5, odd and 4k+-1, up to 2 KiB, occasional 20-48 KiB} x interleaved string/bext sets x 0..1000 frames x a late sf_set_chunk after audio x optional reserved id x reading part of the audio before the chunk queries; "
            "the audio through sf_writef_short or, for sample-granular encodings, through sf_write_raw alone; model = ordered list of accepted chunks; after re-open: full iteration visits them exactly once in order (library chunks identified by a twin file without custom chunks), by-id iteration visits exactly the chunks with that id, size within +3 of the payload length, payload equal and zero padded, short-buffer fetches stay inside an exact-size ASan block, audio and strings equal the twin; ids the container's own reader has a branch for (AIFF APPL, WAV DISP / MEXT, CAF uuid / umid) with payloads around the 8 KiB skip threshold; a full iteration is counted before and after an iteration by id that is started and dropped; non-trivial = >= 21 chunks or duplicate ids or an odd payload; distinct = hash of the case",
    "assumptions": BASE_ASSUME + ["chunk sources and destinations are exact-size heap blocks; the invariant hook runs after every sf_set_chunk",
                                  "three listed findings partition off their own classes by signature (ids shorter than 4 chars, reserved ids, totals above ~48 KiB); everything else is asserted"],
    "stages": [
        {"bin": "c13", "quick": {"cases": 8000, "workers": 16, "budget": 200}, "thorough": {"cases": 40000, "workers": 16, "budget": 1500}},
    ],
}

PROPS["C12"] = {
    "level": "exploration",
    "rule": "byte order {container default, explicit LITTLE / BIG where sf_format_check accepts it: RIFX, AIFF-C sowt, little-endian CAF} x rapidcheck-generated: container {WAV, WAVEX, RF64, AIFF, CAF} x encoding x channels x subset of {strings, bext, cart, cues, instrument, channel map} the static support table allows (plus, one case in eight, the items it does not allow) x random order of the set calls x values: strings of length classes {1-4, odd, 63/64/127/128/255/256, <= 60, 200-2000, even} of printable ASCII + 2-byte UTF-8, bext/cart with every fixed field filled (to its width or partially), coding history / tag text 0..255 bytes with CR, LF, CRLF mixes, 0..100 cue points with names, 0..16 loops of every mode, a legal channel layout x >= 1000 frames x late variant (one item set again after audio written through sf_writef_short or through sf_write_raw); "
            "every item optionally set once before with other values (the later set must replace it completely); bext / cart optionally passed in an exact-size heap block that ends with the text; optionally exactly one string type (including one the container has no field for); cue names up to 255 characters; oracle: get calls after re-open return the model value (identity except: software suffix, CRLF-normalised history + library line, the fields the container's chunk layout holds); audio and all items not set equal a twin file; a string set after the audio that sf_set_string accepted must be returned after re-open (the library's own SF_STR_ALLOW_END contract); non-trivial = >= 2 kinds in one file or a boundary-length string; distinct = hash of the case",
    "assumptions": BASE_ASSUME + ["which (container, item) pairs must round-trip is a static table in the harness transcribed from the chunk definitions (not learned from the library)",
                                  "WAV smpl cannot hold a negative detune (unsigned pitch fraction): detune is asserted for values >= 0 only; cue names are asserted for AIFF only (WAV never writes them)",
                                  "software strings are kept <= 64 bytes (the 128-byte staging buffer of psf_store_string is not under test)"],
    "stages": [
        {"bin": "c12", "quick": {"cases": 12000, "workers": 16, "budget": 200}, "thorough": {"cases": 40000, "workers": 16, "budget": 1500}},
    ],
}

PROPS["C16"] = {
    "level": "exploration",
    "rule": "rapidcheck-generated cases of two kinds on every catalogue entry: (hist) open in mode {read, write, rdwr} by route {virtual I/O, path, descriptor with close_desc 0/1} + 0..20 calls drawn from every allocating command (strings, bext, cart, cues, instrument, chunks, PEAK on/off, channel map, dither, header-update, scale/clip), typed writes and reads (wrong-mode ones fail), seeks, invalid commands, then close; (malformed) a valid file with metadata, mutated by truncation at any relative offset / short header prefix / byte flips / 0x00-0xFF-ed size fields / header garbage, opened for read by each route and exercised; (opens failing under injected I/O faults are enumerated by C15); "
            "malformed also: exactly one field of one of the first eight chunks damaged, seven extra truncation points in the header area, files with cue points but no instrument, and SD2 pairs written by path whose '._name' resource fork is truncated / flipped / has 16- and 32-bit fields set to boundary values (one case in 25); after every case: LeakSanitizer's recoverable leak check is clean, the set of open descriptors in /proc/self/fd is unchanged, the private TMPDIR is empty, a descriptor given to sf_open_fd is closed iff close_desc, sf_close returned 0 on the non-fault routes; one real-file write history in three is closed with RLIMIT_FSIZE 0 (every further write(2) fails with EFBIG): descriptors and memory must be released all the same; non-trivial = an allocating command was used or an open failed; distinct = hash of the case",
    "assumptions": BASE_ASSUME + ["LeakSanitizer (in-process recoverable check) is the leak oracle; memory still reachable from library statics would not be reported"],
    "stages": [
        {"bin": "c16", "quick": {"cases": 2500, "workers": 16, "budget": 200}, "thorough": {"cases": 20000, "workers": 16, "budget": 1500}},
    ],
}

PROPS["C15"] = {
    "level": "fault_enumeration",
    "engine": "enumeration",
    "technique": "systematic fault injection: enumeration of every virtual-I/O callback index x fault kind x persistence for fixed workloads, with containment invariants as the oracle",
    "rule": "42 representative formats (one per container and per codec family) x workloads {write 3 blocks + header update + close, open-read-seek-read-query-close on a file with metadata chunks, rdwr read/append/reread where supported}: (sample-granular formats also sf_write_raw / sf_read_raw, position judged with the geometry the handle reports) the fault-free run counts K callbacks; cells = fault point i in 1..K x kind {zero-length transfer, short transfer, seek failure, length answer +4096 / -17 / huge} x {single-shot, persistent from i}; both tiers enumerate all cells (the whole grid costs a few seconds); each (format, workload) group runs in a forked child that announces a cell before executing it, a hang ends the child through the I/O work budget (300000 callbacks) and is attributed to that cell; "
            "oracle per cell: every call returns, counts within [0, requested], the internal position moved by exactly the returned count, seek returns target or -1, invariants hook clean, failing open returns NULL with an error, descriptor set unchanged, audio bytes accepted before the fault equal either the snapshot at the fault or the fault-free file, LeakSanitizer clean (per group, per cell on re-run when a group leaks); every group is run with each of the four sample types for the typed transfers; a typed write on a sample-granular encoding must not return more frames than the I/O layer accepted bytes for during the call; the files for the read and read/write workloads carry instrument + loops, cue points, broadcast info and a channel map; a fifth variant of the write workload sets metadata only and closes without audio; non-trivial = the fault was actually consumed (counted; cells are distinct by construction)",
    "assumptions": BASE_ASSUME + ["faults stay inside the SF_VIRTUAL_IO contract (returns in [0, requested], seek -1); OS-level errors on descriptors (ENOSPC, EBADF) are not injected in this version",
                                  "'accepted data not corrupted' is checked for the write workload on the audio region behind the header size observed after a fault-free open"],
    "exhaustive": True,
    "stages": [
        {"bin": "c15", "quick": {"cases": 0, "workers": 16, "budget": 400}, "thorough": {"cases": 0, "workers": 16, "budget": 2400}},
    ],
}

PROPS["C14"] = {
    "level": "exploration",
    "rule": "rapidcheck-generated: kind {read, write} x catalogue entry x channels x N in {0,1,5,6,100,777,3000} x sample seed x mutation {valid, truncated at a generated cut, one byte altered, header bytes overwritten} x leading junk {1..1001} x trailing junk {0..500}; "
            "read: the same byte string opened through virtual I/O, sf_open, sf_open_fd close_desc 0 and 1, a descriptor positioned at offset k of a file with random leading and trailing bytes (WAV/AIFF/AU, valid inputs) and a non-seekable pipe (WAV/AIFF/AU sample-granular encodings, valid inputs); optional extras on valid inputs: a 17-70 KB unknown chunk spliced in before the audio (WAV / AIFF), an AU annotation of 4..70000 bytes, an ID3v2 tag in front of a WAV, a second pipe fed slowly by a forked writer while a 400 us timer signal without SA_RESTART interrupts the reader, the descriptor routes repeated with standard input closed so that the file gets descriptor 0; oracle: same NULL-vs-handle outcome and sf_error number (path/fd/vio), same SF_INFO (pipe: frames and seekable exempt), same first 2000 frames via sf_readf_int, same strings, sf_close 0; "
            "write: the same frames written through virtual I/O, sf_open, sf_open_fd 0/1 and a descriptor positioned at offset k<=L of an existing L-byte container file; oracle: bytes identical (SVX NAME chunk and MPC2K name field masked), the L existing bytes intact and the sound file appended after them; "
            "both: fcntl on the handed-in descriptor after sf_close says closed iff close_desc, and the set of open descriptors of the process is unchanged; SVX files get, in half of the cases, a path name exactly as long as their NAME chunk (the reader treats that case specially); in a quarter of the cases the routes are compared through sf_read_raw in pieces until the handle reports the end, instead of one typed read; non-trivial = N >= 1 and at least three routes compared; distinct = hash of the case",
    "assumptions": BASE_ASSUME + ["SD2 is excluded (path-only container with a resource fork)",
                                  "pipe inputs are limited to 60000 bytes so that the whole file fits the pipe buffer and no writer thread is needed",
                                  "the open-descriptor census reads /proc/self/fd"],
    "stages": [
        {"bin": "c14", "quick": {"cases": 5000, "workers": 16, "budget": 200}, "thorough": {"cases": 30000, "workers": 16, "budget": 1500}},
    ],
}

PROPS["C19"] = {
    "level": "exploration",
    "rule": "rapidcheck-generated: 2..8 scripts, each (catalogue entry, channels, mode {read, write, failing open}, op seed, 1..10 ops); one draw in three puts every script on the same codec (drawn among the encodings with private per-stream state); one script in three works on a real file with descriptors of its own (SD2 included), the others on virtual I/O; ALAC fixtures span several packets; "
            "read ops: typed sf_readf of 0..2000 frames, sf_seek with every whence incl. out-of-range targets, sf_get_string, SFC_CALC_SIGNAL_MAX, norm/scale/clipping settings; write ops: typed sf_writef of 0..3000 frames (all sample styles, arbitrary finite float bit patterns for float codecs), sf_set_string, SFC_UPDATE_HEADER_NOW, SFC_TEST_IEEE_FLOAT_REPLACE on/off, settings; "
            "merge of the scripts' steps {random, round robin, one after the other (= earlier library use), bursts}, and every merge (<= 300) of two short scripts; "
            "oracle: per-script transcript (return value, digest of returned data, sf_error(handle) after every call, sf_error(NULL)/sf_strerror(NULL) right after the script's own open, close status) and the final bytes of its backing store equal the transcript of the same script run alone; fixtures, every solo run and every interleaved run happen in a forked child of their own, the parent never opens a file; "
            "one case in six puts every script on a different variant of one codec family in one container (NMS 16/24/32, G.721/G.723, ALAC, DWVW, ...); non-trivial = at least two scripts that moved audio data; distinct = hash of the case",
    "assumptions": BASE_ASSUME + ["single-threaded interleavings only (the property says so)",
                                  "the clock is pinned, so the time-seeded generator behind ALAC temp-file names starts equal in every child",
                                  "VOX item counts are kept even (see KF-vox-odd-count)",
                                  "a second stage repeats the search with ASAN_OPTIONS max_malloc_fill_size=0:quarantine_size_mb=0:thread_local_quarantine_size_kb=0, so that state a handle forgot to initialise holds whatever an earlier handle freed"],
    "stages": [
        {"bin": "c19", "quick": {"cases": 200, "workers": 16, "budget": 250}, "thorough": {"cases": 5000, "workers": 16, "budget": 1800}},
        # second pass with an allocator that hands freed blocks straight back, unfilled: what an earlier handle left on the heap is what a
        # later malloc gets, as with a production allocator (ASan's default 0xbe fill and quarantine would hide reads of uninitialised state)
        {"bin": "c19", "tag": "_reuse", "no_replays": True,
         "env": {"ASAN_OPTIONS": "detect_leaks=1:abort_on_error=0:exitcode=99:allocator_may_return_null=1:detect_stack_use_after_return=0:max_malloc_fill_size=0:quarantine_size_mb=0:thread_local_quarantine_size_kb=0"},
         "quick": {"cases": 150, "workers": 16, "budget": 250}, "thorough": {"cases": 4000, "workers": 16, "budget": 1800}},
    ],
}


# ---------------------------------------------------------------- C03: mutation sweep + libFuzzer campaign
def _fuzz_stage(chk, st):
    """libFuzzer campaign (fork mode) on fuzz/<bin>.cc; artifacts are converted to input=<hex> cases and classified by the
    ASan sweep binary (3 replays, known-finding predicates); the final corpus is run through the same binary for the
    evidence counters.  crash-/leak-/timeout- artifacts count, oom-/slow-unit- never do."""
    import os, sys, glob, json, shutil, subprocess, re, time
    sys.path.insert(0, os.path.dirname(os.path.abspath(__file__)))
    import build as B
    t = st[chk.tier]
    fz = B.build_harness(st["bin"], "asan", fuzzer=True)
    exe = B.build_harness(st["classifier"], "asan")
    root = os.path.join(B.BUILD, "fuzz", chk.pid)
    shutil.rmtree(root, ignore_errors=True)
    os.makedirs(root)
    # dictionary from the chunk ids / magic numbers of the working tree
    toks = set()
    for f in glob.glob(os.path.join(B.REPO, "src", "*.c")) + glob.glob(os.path.join(B.REPO, "src", "*.h")):
        for m in re.finditer(r"MAKE_MARKER\s*\(\s*'(.)'\s*,\s*'(.)'\s*,\s*'(.)'\s*,\s*'(.)'\s*\)", open(f, errors="replace").read()):
            toks.add("".join(m.groups()))
    dpath = os.path.join(root, "dict.txt")
    with open(dpath, "w") as f:
        for tk in sorted(toks):
            f.write('"' + "".join("\\x%02x" % ord(c) for c in tk) + '"\n')
    total_execs, units = 0, 0
    for camp in t["campaigns"]:
        cdir = os.path.join(root, camp["name"])
        corpus, art = os.path.join(cdir, "corpus"), os.path.join(cdir, "artifacts")
        os.makedirs(corpus); os.makedirs(art)
        seeds = []
        if camp.get("seeded"):
            sdir = os.path.join(cdir, "seeds")
            subprocess.run([exe, "--out", os.path.join(chk.rundir, "emit"), "--emit-corpus", sdir], env=chk.env, check=True, stdout=subprocess.DEVNULL, stderr=subprocess.DEVNULL)
            seeds = [sdir]
        env = dict(chk.env)
        env["ASAN_OPTIONS"] = "detect_leaks=1:allocator_may_return_null=1:detect_stack_use_after_return=0:abort_on_error=0"
        cmd = [fz, "-fork=%d" % t.get("workers", 16), "-ignore_crashes=1", "-ignore_timeouts=1", "-ignore_ooms=1", "-max_total_time=%d" % camp["seconds"],
               "-max_len=65536", "-timeout=25", "-rss_limit_mb=3000", "-dict=" + dpath, "-seed=%d" % (chk.seed * 7919 + 13), "-artifact_prefix=" + art + "/",
               "-print_final_stats=1", corpus] + seeds
        log = os.path.join(cdir, "fuzz.log")
        with open(log, "w") as lf:
            try:
                subprocess.run(cmd, stdout=lf, stderr=lf, env=env, cwd=cdir, timeout=camp["seconds"] * 3 + 300)
            except subprocess.TimeoutExpired:
                chk.notes.append("fuzz campaign %s exceeded its hard wall limit and was stopped (inconclusive, not a violation)" % camp["name"])
        text = open(log, errors="replace").read()
        m = re.findall(r"#(\d+): cov: (\d+) ft: (\d+) corp: (\d+)", text)
        execs = int(m[-1][0]) if m else 0
        total_execs += execs
        chk.notes.append("fuzz campaign %s: %d executions, cov %s, features %s, corpus %s units, %ds" % (camp["name"], execs, m[-1][1] if m else "?", m[-1][2] if m else "?", m[-1][3] if m else "?", camp["seconds"]))
        # artifacts
        arts = sorted(glob.glob(os.path.join(art, "crash-*")) + glob.glob(os.path.join(art, "leak-*")) + glob.glob(os.path.join(art, "timeout-*")))
        ignored = len(glob.glob(os.path.join(art, "oom-*")) + glob.glob(os.path.join(art, "slow-unit-*")))
        chk.notes.append("fuzz campaign %s: %d artifacts to classify, %d oom/slow-unit artifacts ignored" % (camp["name"], len(arts), ignored))
        seen = 0
        for a in arts[:200]:
            case = a + ".case"
            with open(case, "w") as f:
                f.write("input=" + open(a, "rb").read().hex() + "\n#stage=%s\n#artifact=%s\n" % (st["classifier"], os.path.basename(a)))
            if chk.confirm_and_report(exe, case, "libFuzzer artifact %s" % os.path.basename(a)):
                seen += 1
                if seen >= 5:
                    break
        # corpus statistics through the ASan binary (also a second opinion on every unit)
        out = os.path.join(chk.rundir, "fuzz_%s_w0" % camp["name"])
        os.makedirs(out, exist_ok=True)
        r = subprocess.run([exe, "--out", out, "--kf", chk.kf_file, "--stats", corpus, "--budget", "600"], env=chk.env, stdout=subprocess.PIPE, stderr=subprocess.PIPE, text=True, errors="replace")
        if r.returncode == 1 and os.path.exists(os.path.join(out, "failing.case")):
            chk.confirm_and_report(exe, os.path.join(out, "failing.case"), "corpus unit fails in the ASan build")
        elif r.returncode not in (0, 1) and os.path.exists(os.path.join(out, "current.case")):
            chk.confirm_and_report(exe, os.path.join(out, "current.case"), "corpus unit kills the ASan build (rc=%d)\n%s" % (r.returncode, r.stderr[-3000:]))
        try:
            c = json.load(open(os.path.join(out, "counters.json")))
            c.setdefault("extra", {})["fuzz_executions"] = execs
            json.dump(c, open(os.path.join(out, "counters.json"), "w"))
        except Exception:
            pass
        shutil.rmtree(os.path.join(cdir, "seeds"), ignore_errors=True)

CUSTOM["fuzz"] = _fuzz_stage

PROPS["C03"] = {
    "level": "exploration",
    "engine": "enumeration + libFuzzer",
    "technique": "fuzzing with a semantic oracle inside the target: systematic structure-aware mutation sweep of a generated seed corpus (fork-isolated, every cell attributed) plus a coverage-guided libFuzzer campaign on the same target function",
    "rule": "stage 0 (enumerated): every seed file (catalogue entry x {1,2} channels, plus metadata-rich variants of WAV/WAVEX/RF64/AIFF/CAF/W64 carrying strings, bext, cart, cue, smpl/INST, chan, PEAK and custom chunks, an AIFF variant with MARK chunk, and hand-built variants with block / chunk types the library never writes: VOC ASCII / marker / repeat / silence blocks, WAV acid / PAD / LIST adtl / exif / DISP / levl ..., AIFF COMT / APPL / INST / basc / MIDI, SVX text / CHAN / envelope chunks, CAF free / uuid / mark / strg ...) x mutation {none, truncate, truncate + flipped header byte, zero/0xFF a 4-byte field, flip a byte, set a field to 24 boundary constants in both byte orders, swap adjacent chunks, inflate a chunk size with and without truncation} x position {every byte of the first 96 (2600 for rich seeds), every chunk boundary +-1, 20 evenly spaced, the tail} with a derived 4-8 op script and route {virtual I/O 70 %, memfd descriptor, pipe}; "
            "stage 1 (libFuzzer, coverage-guided, fork mode): input = file bytes || <= 24 ops || control (route, RAW SF_INFO with 16 encodings), seeded corpus + dictionary of all MAKE_MARKER ids, and an empty-corpus campaign in thorough; "
            "oracle inside the target: NULL => sf_error(NULL) != 0 and a message; handle => 1 <= channels <= 1024, samplerate >= 1, frames >= 0, sections >= 1, container and encoding among the public constants; every read count <= request; ASan + bounds on exact-size caller buffers for all four read types, sf_read_raw, strings, every GET/CALC command, SF_CUES_VAR(1,2,3,100), chunk iteration with exact and short buffers; invariant hook after every call; per-call I/O budget 2000000 + 100 callbacks per input byte (virtual I/O), 10 s alarm per cell (a candidate only: reported after three replays under a 45 s limit) / libFuzzer -timeout=25 for CPU-bound loops; LSan per group; "
            "64-bit fields of W64 / CAF / RF64 seeds set to six overflow-prone constants in both byte orders through each of the three routes (set8); non-trivial = the open succeeded; distinct = one per enumerated cell (stage 0) / corpus unit (stage 1)",
    "assumptions": BASE_ASSUME + ["negative read returns are counted (class negative_read_return) but not judged: the statement bounds time and memory accesses, not return conventions",
                                  "allocator_may_return_null=1: a hostile size that makes malloc fail must be handled by the library, a size that malloc can satisfy lazily is only caught through the work it causes",
                                  "timeout-/crash-/leak- artifacts count only when they reproduce three times in the ASan sweep binary; oom- and slow-unit- artifacts are load noise and never count",
                                  "the pipe route is limited to inputs of at most 60000 bytes (one pipe buffer)"],
    "stages": [
        {"bin": "c03", "quick": {"cases": 0, "workers": 16, "budget": 400}, "thorough": {"cases": 0, "workers": 16, "budget": 1500}},
        {"kind": "fuzz", "bin": "c03_fuzz", "classifier": "c03",
         "quick": {"workers": 16, "campaigns": [{"name": "seeded", "seeded": True, "seconds": 60}]},
         "thorough": {"workers": 16, "campaigns": [{"name": "seeded", "seeded": True, "seconds": 1200}, {"name": "empty", "seeded": False, "seconds": 600}]}},
    ],
}
