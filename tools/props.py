"""Per-property configuration for ./check: stages (harness binaries and budgets per tier), the level
claimed, the non-triviality rule and the assumptions written into the evidence file."""

BASE_ASSUME = [
    "library compiled by clang 14 -O1 with ASan + -fsanitize=bounds (bounds off for the bundled src/ALAC, see DESIGN 1) and -DLIBSNDFILE_VERIF; the gcc -O2 objects ctest runs are not exercised",
    "build configuration of this image: no external Xiph/MPEG libraries, ENABLE_EXPERIMENTAL_CODE=0, little-endian x86-64",
    "reference models and oracles in /verif/harness are trusted; rapidcheck and the clang sanitizer runtimes are trusted",
    "exploration only: nothing is claimed about inputs outside the generated/enumerated set",
]

CUSTOM = {}

PROPS = {
    "C01": {
        "level": "exploration",
        "rule": "rapidcheck-generated (format triple from the library's own enumeration x channels x lossless API type x N biased to block/packet/staging-buffer edges x sample style x route x write partition); "
                "non-trivial = N >= 1 and the buffer holds >= 2 distinct sample values; distinct = hash of (format, channels, type, N, style, split, float mode, route)",
        "assumptions": BASE_ASSUME,
        "stages": [
            {"bin": "c01", "quick": {"cases": 2500, "workers": 16, "budget": 150}, "thorough": {"cases": 60000, "workers": 16, "budget": 1200}},
        ],
    },
}
NOT_APPLICABLE = {}

PROPS["C04"] = {
    "level": "exploration",
    "rule": "rapidcheck-generated (catalogue entry x channels up to the container maximum x sample rate incl. field-width edges x N biased to block edges x partition over calls and sample types x SF_INFO.frames at open in {0,N,N+1000,-1,INT64_MAX} x route); "
            "non-trivial = N >= 1; distinct = hash of (format, channels, rate class, N, split mode, frames field, route)",
    "assumptions": BASE_ASSUME + ["block length B of WAV/W64 ADPCM is read from the fmt chunk of the produced file by an independent walker; other B values are the table of DESIGN Appendix A.1",
                                  "sample-rate equality is asserted only where the container's rate field can hold the value exactly (DESIGN Appendix A.2)"],
    "stages": [
        {"bin": "c04", "quick": {"cases": 2500, "workers": 16, "budget": 150}, "thorough": {"cases": 60000, "workers": 16, "budget": 1200}},
    ],
}
