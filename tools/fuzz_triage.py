#!/usr/bin/env python3
"""Triage helper: run the C03 libFuzzer target for N seconds (fork mode, crashes ignored) and group the artifacts by the
top library frame / oracle message of their replay in the ASan sweep binary.  usage: tools/fuzz_triage.py SECONDS [seeded|empty]"""
import sys, os, subprocess, glob, shutil, re, collections
V = os.path.dirname(os.path.dirname(os.path.abspath(__file__)))
sys.path.insert(0, os.path.join(V, "tools"))
import build as B
secs = int(sys.argv[1]); mode = sys.argv[2] if len(sys.argv) > 2 else "seeded"
fz = B.build_harness("c03_fuzz", "asan", fuzzer=True); exe = B.build_harness("c03", "asan")
root = os.path.join(B.BUILD, "fuzz", "triage"); shutil.rmtree(root, ignore_errors=True); os.makedirs(root + "/corpus"); os.makedirs(root + "/art")
env = dict(os.environ); env["VERIF_SCRATCH"] = root + "/scratch"; os.makedirs(env["VERIF_SCRATCH"])
env["ASAN_OPTIONS"] = "detect_leaks=1:allocator_may_return_null=1:detect_stack_use_after_return=0"
seeds = []
if mode == "seeded":
    subprocess.run([exe, "--out", root + "/emit", "--emit-corpus", root + "/seeds"], env=env, stdout=subprocess.DEVNULL, stderr=subprocess.DEVNULL)
    seeds = [root + "/seeds"]
cmd = [fz, "-fork=%s" % os.environ.get("FUZZ_FORK", "16"), "-ignore_crashes=1", "-ignore_timeouts=1", "-ignore_ooms=1", "-max_total_time=%d" % secs, "-max_len=65536", "-timeout=25", "-rss_limit_mb=3000",
       "-artifact_prefix=" + root + "/art/", root + "/corpus"] + seeds
subprocess.run(cmd, stdout=open(root + "/fuzz.log", "w"), stderr=subprocess.STDOUT, env=env, cwd=root)
print(re.findall(r"#\d+: cov: \d+ ft: \d+ corp: \d+[^\n]*", open(root + "/fuzz.log", errors="replace").read())[-1:])
groups = collections.defaultdict(list)
for a in sorted(glob.glob(root + "/art/*")):
    kind = os.path.basename(a).split("-")[0]
    if kind in ("oom", "slow"):
        groups[kind].append(a); continue
    case = a + ".case"; open(case, "w").write("input=" + open(a, "rb").read().hex() + "\n")
    try:
        r = subprocess.run([exe, "--replay", case, "--out", root + "/r"], env=env, stdout=subprocess.PIPE, stderr=subprocess.PIPE, text=True, errors="replace", timeout=60)
        txt = r.stdout + r.stderr
        m = re.search(r"REPLAY (pass|fail kind=\S+)", txt)
        fr = re.findall(r"#\d+ 0x[0-9a-f]+ in (\S+) (/repo/\S+)", txt)
        s = re.search(r"SUMMARY: AddressSanitizer: (\S+)", txt)
        key = (m.group(1) if m else "") + " " + (s.group(1) if s else "") + " " + (fr[0][0] + " " + fr[0][1] if fr else "") + (" exit97" if r.returncode == 97 else "")
    except subprocess.TimeoutExpired:
        key = "replay-timeout"
    groups[kind + " | " + key.strip()].append(case)
for k, v in sorted(groups.items(), key=lambda x: -len(x[1])):
    print(len(v), k, v[0])
