#!/usr/bin/env python3
"""Triage helper: run a harness binary with 16 workers in survey mode (failures are tallied by signature instead of
stopping at the first one) and print the tally.  usage: tools/survey.py BIN KEYS [--thorough] [--cases N] [--budget S] [--seed N]"""
import sys, os, subprocess, json, glob, shutil
V = os.path.dirname(os.path.dirname(os.path.abspath(__file__)))
sys.path.insert(0, os.path.join(V, "tools"))
import build as B
a = sys.argv[1:]
name, keys = a[0], a[1]
opt = {"--cases": "500", "--budget": "600", "--seed": "1"}
thorough = "--thorough" in a
for k in list(opt):
    if k in a:
        opt[k] = a[a.index(k) + 1]
exe = B.build_harness(name, "asan")
out = os.path.join(V, "build", "survey", name)
shutil.rmtree(out, ignore_errors=True)
env = dict(os.environ)
env["ASAN_OPTIONS"] = "detect_leaks=1:abort_on_error=0:exitcode=99:allocator_may_return_null=1:detect_stack_use_after_return=0"
env["UBSAN_OPTIONS"] = "print_stacktrace=1:halt_on_error=1:exitcode=98"
env["VERIF_SCRATCH"] = os.path.join(V, "build", "scratch", "survey_%d" % os.getpid())
os.makedirs(env["VERIF_SCRATCH"], exist_ok=True)
kf = os.path.join(V, "build", "run", name.upper()[:3], "kf.txt")
procs = []
for k in range(16):
    d = os.path.join(out, "w%d" % k)
    os.makedirs(d)
    cmd = [exe, "--out", d, "--seed", str(int(opt["--seed"]) * 1000 + k + 1), "--cases", opt["--cases"], "--budget", opt["--budget"],
           "--worker", str(k), "--workers", "16", "--survey", keys] + (["--kf", kf] if os.path.exists(kf) else []) + (["--thorough"] if thorough else [])
    procs.append(subprocess.Popen(cmd, stdout=open(d + "/stdout.txt", "w"), stderr=open(d + "/stderr.txt", "w"), env=env))
for p in procs:
    p.wait()
tally, ev = {}, 0
for f in glob.glob(out + "/w*/counters.json"):
    d = json.load(open(f))
    ev += d.get("evaluations", 0)
    for k, v in d.get("classes", {}).items():
        if k.startswith("FAIL"):
            tally[k] = tally.get(k, 0) + v
print("evaluations", ev, "rcs", [p.returncode for p in procs])
for k, v in sorted(tally.items(), key=lambda x: -x[1]):
    print(v, k[:400])
print("survey cases under", out)
shutil.rmtree(env["VERIF_SCRATCH"], ignore_errors=True)
