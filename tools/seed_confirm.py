#!/usr/bin/env python3
"""Confirm sub-agent produced mutants in their scratch worktree and import them into /verif/seeded.

  tools/seed_confirm.py /tmp/wt/C01 [A B ...]

For each mutant X in <wt>/MUTANTS: clean tree -> build -> demo must exit 0; apply X.diff -> build ->
ctest must pass 143/143 -> demo must exit non-zero; revert.  On success copies patch.diff, demo.c and
meta.json to /verif/seeded/<prop>_<X>/ (meta.json records what was run)."""
import json, os, subprocess, sys, shutil

VERIF = os.path.dirname(os.path.dirname(os.path.abspath(__file__)))


def sh(cmd, cwd, timeout=1800):
    r = subprocess.run(cmd, shell=True, cwd=cwd, stdout=subprocess.PIPE, stderr=subprocess.STDOUT, text=True, timeout=timeout)
    return r.returncode, r.stdout


def build(wt):
    rc, out = sh("cmake --build _build -j8 2>&1 | tail -3", wt)
    return rc == 0 and "FAILED" not in out and "error:" not in out, out


def demo(wt, x):
    rc, out = sh("cc -O1 -g -I include -I _build/include MUTANTS/demo_%s.c _build/libsndfile.a -lm -o MUTANTS/demo_%s 2>&1 | tail -5" % (x, x), wt)
    if not os.path.exists(os.path.join(wt, "MUTANTS", "demo_" + x)):
        return None, out
    rc, out = sh("cd MUTANTS && timeout 120 ./demo_%s; echo EXIT=$?" % x, wt)
    code = int(out.rsplit("EXIT=", 1)[1].strip())
    os.unlink(os.path.join(wt, "MUTANTS", "demo_" + x))
    return code, out[-1500:]


def main():
    wt = sys.argv[1]
    prop = os.path.basename(wt.rstrip("/"))[:3]
    xs = sys.argv[2:] or sorted(f[:-5] for f in os.listdir(os.path.join(wt, "MUTANTS")) if f.endswith(".diff"))
    if not os.path.exists(os.path.join(wt, "_build")):
        sh("cmake -G Ninja -S . -B _build -DCMAKE_BUILD_TYPE=RelWithDebInfo -DCMAKE_C_FLAGS=-Wno-error >/dev/null", wt)
    for x in xs:
        res = {"property": prop, "mutant": x}
        sh("git checkout -- . ", wt)
        ok, out = build(wt)
        c0, o0 = demo(wt, x)
        res["demo_clean_exit"] = c0
        rc, out = sh("git apply MUTANTS/%s.diff" % x, wt)
        if rc != 0:
            res["error"] = "patch does not apply: " + out
            print(json.dumps(res)); continue
        ok, out = build(wt)
        res["build_ok"] = ok
        rc, out = sh("ctest --test-dir _build -j8 --timeout 900 2>&1 | tail -4", wt)
        res["ctest"] = out.strip().splitlines()[0] if out.strip() else ""
        ctest_ok = "100% tests passed" in out and "out of 143" in out
        c1, o1 = demo(wt, x)
        res["demo_mutant_exit"] = c1
        res["demo_mutant_output"] = (o1 or "")[-600:]
        sh("git checkout -- . ", wt)
        build(wt)
        good = ok and ctest_ok and c0 == 0 and c1 not in (0, None)
        res["confirmed"] = good
        if good:
            dst = os.path.join(VERIF, "seeded", "%s_%s" % (prop, x))
            os.makedirs(dst, exist_ok=True)
            shutil.copy(os.path.join(wt, "MUTANTS", x + ".diff"), os.path.join(dst, "patch.diff"))
            shutil.copy(os.path.join(wt, "MUTANTS", "demo_%s.c" % x), os.path.join(dst, "demo.c"))
            meta = {}
            try:
                meta = json.load(open(os.path.join(wt, "MUTANTS", x + ".json")))
            except Exception as e:
                meta = {"property": prop, "agent_json_error": str(e)}
            meta["confirmed_by_seed_confirm"] = {k: res[k] for k in ("demo_clean_exit", "build_ok", "ctest", "demo_mutant_exit")}
            meta["confirm_cmd"] = "tools/seed_confirm.py %s %s (clean build+demo, git apply, build, ctest -j8, demo, revert) in the scratch worktree" % (wt, x)
            json.dump(meta, open(os.path.join(dst, "meta.json"), "w"), indent=1)
        print(json.dumps(res))


if __name__ == "__main__":
    main()
