#!/usr/bin/env python3
"""Run registered checks against the seeded defects in /verif/seeded.

  tools/seedtest.py [--tier quick] [--props C01,C04] [seed_dir ...]

For each seeded/<name>/patch.diff: git -C @REPO@ apply, run ./check <prop> for the property the mutant targets
(or the --props list), record whether a VIOLATION line was printed, then git -C @REPO@ checkout -- . straight
afterwards.  Results are appended to seeded/RESULTS.jsonl (not part of any registered command)."""
import json, os, subprocess, sys, time

VERIF = os.path.dirname(os.path.dirname(os.path.abspath(__file__)))


REPO = os.environ.get("VERIF_REPO", "/repo")


def sh(cmd, **kw):
    cmd = cmd.replace("@REPO@", REPO)
    return subprocess.run(cmd, shell=True, stdout=subprocess.PIPE, stderr=subprocess.STDOUT, text=True, **kw)


def main():
    a = sys.argv[1:]
    tier, props, dirs = "quick", None, []
    i = 0
    while i < len(a):
        if a[i] == "--tier": tier = a[i + 1]; i += 2
        elif a[i] == "--props": props = a[i + 1].split(","); i += 2
        else: dirs.append(a[i]); i += 1
    if not dirs:
        dirs = sorted(d for d in os.listdir(os.path.join(VERIF, "seeded")) if os.path.isdir(os.path.join(VERIF, "seeded", d)))
    st = sh("git -C @REPO@ status --porcelain --untracked-files=no").stdout.strip()
    if st:
        sys.exit("refusing: the repository has uncommitted changes:\n" + st)
    for d in dirs:
        name = os.path.basename(d.rstrip("/"))
        sdir = os.path.join(VERIF, "seeded", name)
        patch = os.path.join(sdir, "patch.diff")
        targets = props or [name[:3]]
        r = sh("git -C @REPO@ apply %s 2>&1 || (git -C @REPO@ apply --3way %s 2>&1 && git -C @REPO@ reset -q)" % (patch, patch))
        if sh("git -C @REPO@ diff --quiet HEAD").returncode == 0:
            print(json.dumps({"seed": name, "error": "patch did not apply", "out": r.stdout[-500:]}))
            sh("git -C @REPO@ reset -q ; git -C @REPO@ checkout -- .")
            continue
        try:
            for p in targets:
                t0 = time.time()
                rr = sh("./check %s --tier %s" % (p, tier), cwd=VERIF)
                viol = [l for l in rr.stdout.splitlines() if l.startswith("VIOLATION")]
                detail = [l.strip() for l in rr.stdout.splitlines() if "REPLAY fail" in l or "kind=" in l][:2]
                res = {"seed": name, "check": p, "tier": tier, "caught": bool(viol), "exit": rr.returncode,
                       "wall_s": round(time.time() - t0, 1), "first": (viol[0] if viol else ""), "detail": detail}
                print(json.dumps(res), flush=True)
                with open(os.path.join(VERIF, "seeded", "RESULTS.jsonl"), "a") as f:
                    f.write(json.dumps(res) + "\n")
        finally:
            sh("git -C @REPO@ reset -q ; git -C @REPO@ checkout -- .")


if __name__ == "__main__":
    main()
