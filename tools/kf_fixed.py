#!/usr/bin/env python3
"""Turn an open finding into a fixed record: tools/kf_fixed.py KF-id PROPERTY "what failed" [commit, default /repo HEAD]"""
import json, subprocess, sys, os
V = os.path.dirname(os.path.dirname(os.path.abspath(__file__)))
kid, prop, what = sys.argv[1:4]
full = subprocess.run(["git", "-C", "/repo", "rev-parse", sys.argv[4] if len(sys.argv) > 4 else "HEAD"], capture_output=True, text=True).stdout.strip()
p = os.path.join(V, "known_findings.json")
d = json.load(open(p))
if kid != "-":
    n = len(d["findings"])
    d["findings"] = [k for k in d["findings"] if k["id"] != kid]
    assert len(d["findings"]) == n - 1, "no such finding"
d["findings"].append({"id": "FX-" + full[:7], "status": "fixed", "properties": [prop], "commit": full, "what": what,
                      "line": "fixed: property=%s %s %s" % (prop, full[:7], what)})
json.dump(d, open(p, "w"), indent=1)
print("recorded", full[:7])
