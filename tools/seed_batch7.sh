#!/bin/bash
# tools/seed_batch6.sh C09 [checks,comma] : confirm the M change of /tmp/wt7/<ID>, import them, run the checks against the scratch tree
# /tmp/wtfix (same content as /repo HEAD) with their own build and evidence directories, so that nothing touches /repo or /verif/evidence
id=$1; props=${2:-$id}
cd /verif
python3 tools/seed_confirm.py /tmp/wt7/$id 2>&1 | python3 -c "
import sys,json
for l in sys.stdin:
    try: d=json.loads(l); print(d['property'],d['mutant'],'confirmed' if d.get('confirmed') else 'NOT CONFIRMED', d.get('error','') , (d.get('demo_mutant_output') or '')[:150].replace('\n',' '))
    except Exception: print(l[:200])
"
for x in M; do if [ -d seeded/${id}_$x ]; then VERIF_REPO=/tmp/wtm VERIF_BUILD=/tmp/vbfix VERIF_EVIDENCE_DIR=/tmp/vbfix/evidence python3 tools/seedtest.py --props $props ${id}_$x 2>&1 | python3 -c "
import sys,json
for l in sys.stdin:
    try: d=json.loads(l); print(d['seed'],d.get('check'),'CAUGHT' if d.get('caught') else 'missed', d.get('wall_s'), d.get('error',''), (d.get('detail') or [''])[0][:220])
    except Exception: pass
"; fi; done
git -C /repo worktree remove --force /tmp/wt7/$id
git -C /tmp/wtm status --short | head -3
