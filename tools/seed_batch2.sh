#!/bin/bash
# tools/seed_batch2.sh C10 [checks,comma] : confirm the C/D mutants of /tmp/wt2/<ID>, import, run checks, drop the worktree
id=$1; props=${2:-$id}
cd /verif
python3 tools/seed_confirm.py /tmp/wt2/$id 2>&1 | python3 -c "
import sys,json
for l in sys.stdin:
    try: d=json.loads(l); print(d['property'],d['mutant'],'confirmed' if d.get('confirmed') else 'NOT CONFIRMED', d.get('error','') , (d.get('demo_mutant_output') or '')[:150].replace('\n',' '))
    except Exception: print(l[:200])
"
for x in C D; do if [ -d seeded/${id}_$x ]; then python3 tools/seedtest.py --props $props ${id}_$x 2>&1 | tail -n +1 | python3 -c "
import sys,json
for l in sys.stdin:
    try: d=json.loads(l); print(d['seed'],d['check'],'CAUGHT' if d['caught'] else 'missed', d['wall_s'], (d.get('detail') or [''])[0][:220])
    except Exception: pass
"; fi; done
git -C /repo worktree remove --force /tmp/wt2/$id
git -C /repo status --short | head -3
