#!/bin/bash
# tools/sweep.sh "<seeds>" [tier] [props...] : run checks over several VERIF_SEED values, print one line per run
seeds=${1:-"1 2 3"}; tier=${2:-quick}; shift 2 2>/dev/null
props=${@:-$(python3 -c "import sys; sys.path.insert(0,'/verif/tools'); import props; print(' '.join(sorted(props.PROPS)))")}
cd /verif
for p in $props; do for s in $seeds; do
  out=$(VERIF_SEED=$s ./check $p --tier $tier 2>&1); rc=$?
  echo "$p seed=$s rc=$rc $(echo "$out" | grep -c '^VIOLATION') violations; $(echo "$out" | grep 'tier=' | sed 's/known=.*//' | cut -c1-110)"
  echo "$out" | grep -A4 '^VIOLATION' | head -12
done; done
