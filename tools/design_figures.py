#!/usr/bin/env python3
"""tools/design_figures.py : rewrite the last column of the section-5 table of DESIGN.md (quick: cases, distinct non-trivial, s)
from evidence/<ID>.json.  Run after a quick sweep; refuses to use evidence of another tier."""
import json, os, re, sys
VERIF = os.path.dirname(os.path.dirname(os.path.abspath(__file__)))

def fmt(n):
    if n >= 10_000_000_000: return "%.1f G" % (n / 1e9)
    if n >= 1_000_000: return "%.1f M" % (n / 1e6)
    return format(n, ",").replace(",", " ")

path = os.path.join(VERIF, "DESIGN.md")
lines = open(path).read().split("\n")
out = []; changed = 0
for l in lines:
    m = re.match(r"^\| (C\d\d) \|", l)
    cells = l.split(" | ")
    if m and len(cells) >= 4 and re.search(r"/ \d+ \|$", l.strip()):
        ev = json.load(open(os.path.join(VERIF, "evidence", m.group(1) + ".json")))
        if ev.get("tier") != "quick":
            print("evidence of", m.group(1), "is tier", ev.get("tier"), "- skipped"); out.append(l); continue
        c = ev["coverage"]
        cells[-1] = "%s / %s / %d |" % (fmt(c["evaluations"]), fmt(c["distinct_nontrivial"]), round(ev["wall_s"]))
        l = " | ".join(cells); changed += 1
    out.append(l)
open(path, "w").write("\n".join(out))
print("rows updated:", changed)
