#!/usr/bin/env python3
"""Regenerate /verif/MANIFEST.json from tools/props.py (claimed checks) and properties.jsonl (ids)."""
import json, os, subprocess, sys
VERIF = os.path.dirname(os.path.dirname(os.path.abspath(__file__)))
sys.path.insert(0, os.path.join(VERIF, "tools"))
import props as P

ids = [json.loads(l)["id"] for l in open(os.path.join(VERIF, "properties.jsonl"))]
try:
    commits = subprocess.run(["git", "-C", "/repo", "log", "--format=%H %s"], stdout=subprocess.PIPE, text=True).stdout.splitlines()
except Exception:
    commits = []
hook_commits = [c.split()[0] for c in commits if "verif hook" in c]
checks = []
for pid in ids:
    if pid not in P.PROPS or P.PROPS[pid].get("unclaimed"):
        continue
    c = P.PROPS[pid]
    e = {
        "property_id": pid,
        "quick_cmd": "./check %s --tier quick" % pid,
        "thorough_cmd": "./check %s --tier thorough" % pid,
        "evidence_file": "/verif/evidence/%s.json" % pid,
        "replay_cmd_template": "./check %s --replay {path}" % pid,
        "engine": c.get("engine", "rapidcheck"),
        "level_claimed": {"category": c["level"], "text": c.get("level_text", "generated-input search against an explicit oracle; holds on everything explored, no more"), "design_ref": "DESIGN.md section 5, " + pid},
        "level_note": c.get("level_note", "trusted: clang 14 sanitizer runtimes, rapidcheck, the harness' reference models/oracles (self-tested), Linux file semantics; exploration is bounded by the stated generators"),
        "technique": c.get("technique", "property-based testing (rapidcheck generators, shrinking) against an explicit oracle"),
    }
    checks.append(e)
na = [{"property_id": pid, "reason": P.NOT_APPLICABLE.get(pid, "check not built yet in this round (planned, see DESIGN.md Appendix B)")} for pid in ids if pid not in [c["property_id"] for c in checks]]
doc = {
    "version": 1,
    "setup_cmd": "python3 tools/build.py all",
    "hooks": {
        "guard": "LIBSNDFILE_VERIF",
        "enable": "tools/build.py compiles /repo/src with clang -DLIBSNDFILE_VERIF (ASan + bounds) into /verif/build/<variant>/libsndfile.a; hooks live at the end of src/sndfile.c",
        "baseline_off_cmd": "cmake --build /repo/_build && ctest --test-dir /repo/_build -j8 --timeout 900",
        "source_commits": hook_commits,
        "add_only": True,
    },
    "engines": [
        {"name": "rapidcheck", "path": "/usr/lib/x86_64-linux-gnu/librapidcheck.a", "serves_properties": [c["property_id"] for c in checks if c["engine"] == "rapidcheck"], "kind_free_text": "property-based testing library (generators + shrinking), one harness binary per property under /verif/harness"},
        {"name": "libFuzzer", "path": "clang -fsanitize=fuzzer", "serves_properties": [c["property_id"] for c in checks if "libFuzzer" in c["engine"]], "kind_free_text": "coverage-guided in-process fuzzing with a semantic oracle inside the target"},
        {"name": "enumeration", "path": "/verif/harness", "serves_properties": [c["property_id"] for c in checks if "enumeration" in c["engine"]], "kind_free_text": "complete enumeration of finite domains with the same oracle/evidence plumbing"},
    ],
    "checks": checks,
    "not_applicable": na,
    "notes": "Driver: ./check <ID> --tier quick|thorough [--replay F]; VERIF_SEED selects the seed; known findings in known_findings.json; design in DESIGN.md.",
}
json.dump(doc, open(os.path.join(VERIF, "MANIFEST.json"), "w"), indent=1)
print("MANIFEST.json: %d checks, %d not_applicable" % (len(checks), len(na)))
