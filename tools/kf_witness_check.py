#!/usr/bin/env python3
"""tools/kf_witness_check.py : replay the witness of every open entry of known_findings.json and report the ones that no
longer reproduce (a witness that passes is stale: either the finding was repaired by something else, or the witness has to be
refreshed with `<harness> ... --save-known`).  Honours VERIF_REPO / VERIF_BUILD / VERIF_EVIDENCE_DIR like ./check."""
import json, os, subprocess, sys
VERIF = os.path.dirname(os.path.dirname(os.path.abspath(__file__)))
d = json.load(open(os.path.join(VERIF, "known_findings.json")))
stale = 0
for k in d["findings"]:
    if k.get("status", "open") == "fixed":
        continue
    for prop, path in (k.get("witness") or {}).items():
        r = subprocess.run(["./check", prop, "--replay", path], cwd=VERIF, stdout=subprocess.PIPE, stderr=subprocess.STDOUT, text=True)
        line = [l for l in r.stdout.splitlines() if l.startswith("REPLAY")]
        ok = bool(line) and ("known " + k["id"]) in line[0]
        stale += not ok
        print("OK   " if ok else "STALE", k["id"], prop, path, "" if ok else (line[0][:150] if line else r.stdout[-200:]))
sys.exit(1 if stale else 0)
