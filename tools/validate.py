#!/opt/veriftools/pyvenv/bin/python
import json, jsonschema, glob, sys
jsonschema.validate(json.load(open('/verif/MANIFEST.json')), json.load(open('/root/.vp/MANIFEST.schema.json')))
sch = json.load(open('/root/.vp/EVIDENCE.schema.json'))
for f in sorted(glob.glob('/verif/evidence/*.json')):
    jsonschema.validate(json.load(open(f)), sch)
    print('ok', f)
print('manifest ok')
